// Package oracle holds the per-property monitors: functions from an observation log to
// a list of violations plus classification labels. They use only the observation log and
// the reference model.
package oracle

import (
	"fmt"
	"net/http"
	"sort"
	"strconv"
	"strings"

	"verif/harness/model"
	"verif/harness/world"
)

// Violation is one failed obligation.
type Violation struct {
	Prop   string `json:"prop"`
	Kind   string `json:"kind"`   // short stable classifier (known-finding predicates match on it)
	Ex     int    `json:"ex"`     // exchange index (-1 n/a)
	Detail string `json:"detail"` // human readable
}

func (v Violation) String() string {
	return fmt.Sprintf("%s/%s ex=%d: %s", v.Prop, v.Kind, v.Ex, v.Detail)
}

// Result is what a monitor returns.
type Result struct {
	Violations  []Violation
	Labels      map[string]int // classification counters
	NonTrivial  bool
	Unspecified int
	// Evals, when > 0, is the number of executions this case stands for (enumerations
	// inside one generated case); the case then counts Evals evaluations instead of 1.
	Evals int
	// NTKeys, when set, are the identities of the distinct non-trivial sub-cases.
	NTKeys []string
	// Replay, when set, is the concrete scenario that failed (e.g. the base scenario plus the
	// fault placement found by an enumeration); it becomes the replay file.
	Replay *world.Scenario
}

func NewResult() *Result { return &Result{Labels: map[string]int{}} }

func (r *Result) Label(l string)  { r.Labels[l]++ }
func (r *Result) Unspec(l string) { r.Unspecified++; r.Labels["unspecified:"+l]++ }
func (r *Result) Add(v Violation) { r.Violations = append(r.Violations, v) }
func (r *Result) Fail(prop, kind string, ex int, format string, a ...any) {
	r.Add(Violation{Prop: prop, Kind: kind, Ex: ex, Detail: fmt.Sprintf(format, a...)})
}

// Harness-level problems (scenario could not be executed) are reported by every monitor as
// inconclusive, never as a violation.
func HarnessProblem(o *world.Obs) string {
	if o.Fatal != "" {
		return o.Fatal
	}
	return ""
}

// ---------------------------------------------------------------------------

func ReqHeader(rq *world.Req) http.Header {
	h := http.Header{}
	for _, kv := range rq.Header {
		h.Add(strings.TrimPrefix(kv[0], "!"), world.SubstBytes(kv[1])) // $X<hh> escapes stand for raw bytes
	}
	return h
}

func IsPlainGET(rq *world.Req) bool {
	return rq.Method == http.MethodGet && ReqHeader(rq).Get("Range") == ""
}

// HasClientConditional reports whether the client itself sent conditional fields.
func HasClientConditional(rq *world.Req) bool {
	h := ReqHeader(rq)
	for _, k := range []string{"If-None-Match", "If-Modified-Since", "If-Match", "If-Unmodified-Since", "If-Range"} {
		if len(h.Values(k)) > 0 {
			return true
		}
	}
	return false
}

// Versions returns the admissible metadata versions of reply R as seen by an exchange that
// starts at sequence number beforeSeq: the original, and one (two, with/without restarted
// clocks) per 304 received for R earlier.
func Versions(o *world.Obs, r *world.Call, beforeSeq int64) []model.Version {
	v0 := model.Version{Status: r.Status, Header: r.RespHdr.Clone(), ReqNs: r.StartNs, RespNs: r.EndNs, Why: "original", Req: r.Header}
	out := []model.Version{v0}
	etag := r.RespHdr.Get("Etag")
	var c304 []*world.Call
	for _, c := range o.Calls {
		if !c.Completed || c.Kind != "resp" || c.Status != http.StatusNotModified || c.EndSeq >= beforeSeq {
			continue
		}
		refers := false
		if etag != "" && c.Header.Get("If-None-Match") == etag {
			refers = true
		}
		if !refers && c.Ex >= 0 && c.Ex < len(o.Exchanges) {
			if rs := o.Exchanges[c.Ex].Resp; rs != nil && world.TokOf(rs.Header) == r.Serial {
				refers = true
			}
		}
		if refers {
			c304 = append(c304, c)
		}
	}
	sort.Slice(c304, func(i, j int) bool { return c304[i].EndSeq < c304[j].EndSeq })
	// A cache may legitimately not apply a 304 (e.g. one that arrives for an entry that was
	// re-validated or replaced while it was in flight), so every order-preserving subset of the
	// 304s is an admissible history of the entry. Index 0 is the original; the full chain (what a
	// cache that applies every 304 holds) comes right after the singles.
	n := len(c304)
	if n > 7 {
		c304 = c304[n-7:]
		n = 7
	}
	seen := map[string]bool{}
	add := func(v model.Version) {
		key := v.Why + "|" + strconv.FormatInt(v.ReqNs, 10) + "|" + strconv.FormatInt(v.RespNs, 10) + "|" + headerKey(v.Header)
		if !seen[key] {
			seen[key] = true
			out = append(out, v)
		}
	}
	for mask := 1; mask < 1<<n; mask++ {
		cur := v0
		why := ""
		for i := 0; i < n; i++ {
			if mask&(1<<i) == 0 {
				continue
			}
			c := c304[i]
			merged := model.Merge304(cur.Header, c.RespHdr, c.EndNs)
			why += "+s" + strconv.Itoa(c.Serial)
			restarted := model.Version{Status: r.Status, Header: merged, ReqNs: c.StartNs, RespNs: c.EndNs, Why: "304 " + why, Req: c.Header}
			keptClock := model.Version{Status: r.Status, Header: merged, ReqNs: cur.ReqNs, RespNs: cur.RespNs, Why: "304 " + why + " (old clock)", Req: c.Header}
			if mask>>(i+1) == 0 { // last 304 of this subset: both clock variants are admissible results
				add(restarted)
				add(keptClock)
			}
			cur = restarted
		}
	}
	return out
}

func headerKey(h http.Header) string {
	ks := make([]string, 0, len(h))
	for k := range h {
		ks = append(ks, k)
	}
	sort.Strings(ks)
	var b strings.Builder
	for _, k := range ks {
		b.WriteString(k)
		b.WriteByte('=')
		b.WriteString(strings.Join(h[k], "|"))
		b.WriteByte(';')
	}
	return b.String()
}

// LatestVersion is the version a cache that applies every 304 (C08) holds: the one built from
// all 304s with restarted clocks.
// VersionsApplied is Versions without the histories that leave out a 304 the cache has
// demonstrably applied and written back: a foreground validation whose exchange returned the
// stored reply with that 304's marker (REVALIDATED), in a scenario without store faults or
// tampering, when neither the request nor the 304 carries no-store. Such a 304 cannot have been
// "dropped because the entry changed in the meantime": the later state of the entry includes it.
func VersionsApplied(o *world.Obs, r *world.Call, beforeSeq int64) []model.Version {
	vs := Versions(o, r, beforeSeq)
	if len(o.Sc.Faults) > 0 {
		return vs
	}
	for _, st := range o.Sc.Steps {
		if st.Op == "corrupt" {
			return vs
		}
	}
	var must []string
	for _, c := range o.Calls {
		if !c.Fg || !c.Completed || c.Kind != "resp" || c.Status != http.StatusNotModified || c.EndSeq >= beforeSeq || c.Ex < 0 || c.Ex >= len(o.Exchanges) {
			continue
		}
		ex := o.Exchanges[c.Ex]
		if ex.Resp == nil || world.TokOf(ex.Resp.Header) != r.Serial || ex.Resp.Header.Get("X-Val") != strconv.Itoa(c.Serial) {
			continue
		}
		if model.ParseCC(c.RespHdr).Has["no-store"] || model.ParseCC(ReqHeader(ex.Req)).Has["no-store"] {
			continue
		}
		must = append(must, "+s"+strconv.Itoa(c.Serial))
	}
	if len(must) == 0 {
		return vs
	}
	var out []model.Version
	for _, v := range vs {
		ok := true
		for _, m := range must {
			// "+s3" must not match "+s31": the marker is followed by "+", " " or the end
			i := strings.Index(v.Why+" ", m+"+")
			j := strings.Index(v.Why+" ", m+" ")
			if i < 0 && j < 0 {
				ok = false
				break
			}
		}
		if ok {
			out = append(out, v)
		}
	}
	if len(out) == 0 {
		return vs
	}
	return out
}

func LatestVersion(vs []model.Version) model.Version {
	best := vs[0]
	bestLen := -1
	for _, v := range vs {
		if strings.HasSuffix(v.Why, "(old clock)") {
			continue
		}
		if n := strings.Count(v.Why, "+"); n > bestLen {
			best, bestLen = v, n
		}
	}
	return best
}

func secs(ns int64) string { return strconv.FormatFloat(float64(ns)/1e9, 'f', -1, 64) + "s" }

// SummarizeExchange renders one exchange for violation messages.
func SummarizeExchange(o *world.Obs, ex *world.Exchange) string {
	var b strings.Builder
	fmt.Fprintf(&b, "#%d t=%s %s %s %v", ex.Idx, secs(ex.StartNs), ex.Req.Method, ex.Req.URL, ex.Req.Header)
	switch {
	case ex.Panic != "":
		fmt.Fprintf(&b, " -> PANIC %s", firstLine(ex.Panic))
	case ex.Err != "":
		fmt.Fprintf(&b, " -> err %s", ex.Err)
	case ex.Resp != nil:
		fmt.Fprintf(&b, " -> %d status=%s tok=%s val=%s age=%q", ex.Resp.Status, ex.Resp.Header.Get("X-Httpcache-Status"),
			ex.Resp.Header.Get("X-Tok"), ex.Resp.Header.Get("X-Val"), ex.Resp.Header.Get("Age"))
	}
	for _, c := range o.CallsOf(ex.Idx) {
		fmt.Fprintf(&b, " [call s%d fg=%v cond=%v %s %d t=%s..%s]", c.Serial, c.Fg, c.Cond, c.Kind, c.Status, secs(c.StartNs), secs(c.EndNs))
	}
	return b.String()
}

func firstLine(s string) string {
	if i := strings.IndexByte(s, '\n'); i >= 0 {
		return s[:i]
	}
	return s
}

func fmtInt(n int64) string { return strconv.FormatInt(n, 10) }

// Tampered reports whether the scenario alters stored bytes or store results behind the
// cache's back (fault plan or corrupt steps).
func Tampered(o *world.Obs) bool {
	if len(o.Sc.Faults) > 0 {
		return true
	}
	for _, st := range o.Sc.Steps {
		if st.Op == "corrupt" {
			return true
		}
	}
	return false
}

// UnclosedBodies lists origin replies whose body nobody closed by the end of the scenario. The
// client of the harness closes every body it is handed, so what is left was dropped by the
// cache (with a real http.Transport underneath each one pins a connection).
func UnclosedBodies(o *world.Obs) []*world.Call {
	var out []*world.Call
	for _, c := range o.Calls {
		if c.Completed && c.Kind == "resp" && c.BodyTracked && !c.BodyClosed.Load() {
			out = append(out, c)
		}
	}
	return out
}
