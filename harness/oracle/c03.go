package oracle

import (
	"verif/harness/model"
	"verif/harness/world"
)

// C03: a stored response is reused only for an equivalent URI and a plain GET.
func C03(o *world.Obs) *Result {
	r := NewResult()
	for _, ex := range o.Exchanges {
		if ex.Resp == nil {
			continue
		}
		// classify the pair (latest earlier stored candidate, this request) for coverage
		for j := len(o.Calls) - 1; j >= 0; j-- {
			c := o.Calls[j]
			if c.EndSeq < ex.StartSeq && c.Kind == "resp" && c.Method == "GET" && c.URL != ex.Req.URL {
				rel := model.URIRelation(c.URL, ex.Req.URL)
				r.Label("pair:" + rel)
				if rel != "unspecified" {
					r.NonTrivial = true
				} else {
					r.Unspec("c03-pair")
				}
				break
			}
		}
		src, fromStore := o.FromStore(ex)
		if !fromStore || o.Validated304(ex) != nil {
			continue
		}
		if !IsPlainGET(ex.Req) {
			r.Fail("C03", "served-to-non-plain-get", ex.Idx, "stored reply s%d (GET %s) returned to %s %s %v; %s", src.Serial, src.URL, ex.Req.Method, ex.Req.URL, ex.Req.Header, SummarizeExchange(o, ex))
			continue
		}
		if src.Method != "GET" || len(src.Header.Values("Range")) > 0 {
			r.Fail("C03", "stored-from-non-plain-get", ex.Idx, "reply s%d obtained by %s %v is served from the store; %s", src.Serial, src.Method, src.Header, SummarizeExchange(o, ex))
			continue
		}
		switch rel := model.URIRelation(src.URL, ex.Req.URL); rel {
		case "distinct":
			a, _ := model.NF(src.URL, true)
			b, _ := model.NF(ex.Req.URL, true)
			r.Fail("C03", "cross-uri-reuse:"+diffClass(src.URL, ex.Req.URL), ex.Idx, "reply s%d stored for %q is served for the distinct URI %q (loose normal forms %q vs %q); %s",
				src.Serial, src.URL, ex.Req.URL, a, b, SummarizeExchange(o, ex))
		case "equiv":
			r.Label("reuse:equiv")
		default:
			r.Label("reuse:unspecified")
		}
	}
	return r
}

// diffClass names the first component in which two URIs' loose normal forms differ.
func diffClass(a, b string) string {
	sa, aa, pa, qa := model.Components(a)
	sb, ab, pb, qb := model.Components(b)
	switch {
	case sa != sb:
		return "scheme"
	case aa != ab:
		return "authority"
	case pa != pb:
		return "path"
	case qa != qb:
		return "query"
	}
	return "other"
}
