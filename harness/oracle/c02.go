package oracle

import (
	"net/http"
	"net/url"
	"sort"
	"strings"

	"verif/harness/model"
	"verif/harness/world"
)

// validationRequired decides, for stored reply R at the start of exchange ex, whether the
// properties demand validation before R may be returned. Three-valued: reason != "" means MUST
// (under every admissible metadata version); unspec=true means not judged.
func validationRequired(o *world.Obs, ex *world.Exchange, r *world.Call) (reason string, unspec bool) {
	reqCC := model.ParseCC(ReqHeader(ex.Req))
	if reqCC.Has["no-cache"] {
		return "request-no-cache", false
	}
	vs := Versions(o, r, ex.StartSeq)
	allNoCache, allMustRevalStale := true, true
	for _, v := range vs {
		cc := model.ParseCC(v.Header)
		_, present, qualified := cc.NoCache()
		if !(present && !qualified) {
			allNoCache = false
		}
		stale, u, _, _, _ := v.StaleForSure(ex.StartNs)
		if u {
			unspec = true
		}
		if !(cc.Has["must-revalidate"] && stale && !u) {
			allMustRevalStale = false
		}
	}
	if allNoCache {
		return "response-no-cache", false
	}
	if allMustRevalStale {
		return "must-revalidate-stale", false
	}
	if n, ok, valid := reqCC.Delta("max-age"); ok && valid {
		exceeded := true
		for _, v := range vs {
			lo, _, _ := v.AgeBounds(ex.StartNs)
			if !(lo > n) {
				exceeded = false
			}
		}
		if exceeded {
			if reqCC.Has["max-stale"] {
				return "", true // max-age exceeded together with max-stale: not judged (§3.21)
			}
			return "request-max-age-exceeded", false
		}
	}
	return "", unspec
}

func validatorsOK(o *world.Obs, ex *world.Exchange, r *world.Call, c *world.Call) string {
	vs := Versions(o, r, ex.StartSeq)
	etags, lms := map[string]bool{}, map[string]bool{}
	anyNoEtag, anyNoLM := false, false
	for _, v := range vs {
		if e := v.Header.Get("Etag"); e != "" {
			etags[e] = true
		} else {
			anyNoEtag = true
		}
		if l := v.Header.Get("Last-Modified"); l != "" {
			lms[l] = true
		} else {
			anyNoLM = true
		}
	}
	inm, ims := c.Header.Values("If-None-Match"), c.Header.Values("If-Modified-Since")
	switch {
	case len(inm) > 1 || len(ims) > 1:
		return "several conditional field lines"
	case len(inm) == 1 && !etags[inm[0]]:
		return "If-None-Match " + inm[0] + " is not the stored ETag"
	case len(inm) == 0 && len(etags) > 0 && !anyNoEtag:
		return "stored ETag not sent as If-None-Match"
	case len(ims) == 1 && !lms[ims[0]]:
		return "If-Modified-Since " + ims[0] + " is not the stored Last-Modified"
	case len(ims) == 0 && len(lms) > 0 && !anyNoLM:
		return "stored Last-Modified not sent as If-Modified-Since"
	}
	return ""
}

// upstreamRequestOK checks that an upstream request is the client's request plus only the
// conditional fields.
func upstreamRequestOK(ex *world.Exchange, c *world.Call) string {
	if c.Method != ex.Req.Method {
		return "method " + c.Method
	}
	if c.URL != ex.Req.URL {
		// compare parsed forms: the client URL text is what http.NewRequest parsed
		if u, err := url.Parse(ex.Req.URL); err != nil || u.String() != c.URL {
			return "url " + c.URL + " != " + ex.Req.URL
		}
	}
	// the two conditional fields are the cache's to set (judged by validatorsOK)
	want := ReqHeader(ex.Req)
	got := c.Header.Clone()
	for _, k := range []string{"If-None-Match", "If-Modified-Since"} {
		want.Del(k)
		got.Del(k)
	}
	for k, vs := range want {
		for i, v := range vs {
			want[k][i] = world.SubstBytes(v)
		}
	}
	if d := world.DiffHeader(want, got); d != "" {
		return "header " + d
	}
	return ""
}

// candidate returns the stored reply an exchange's conditional call refers to (by ETag).
func candidateByValidator(o *world.Obs, ex *world.Exchange) *world.Call {
	for _, c := range o.CallsOf(ex.Idx) {
		inm := c.Header.Get("If-None-Match")
		if inm == "" || HasClientConditional(ex.Req) {
			continue
		}
		for j := len(o.Calls) - 1; j >= 0; j-- {
			p := o.Calls[j]
			if p.EndSeq < ex.StartSeq && p.Kind == "resp" && p.RespHdr.Get("Etag") == inm && p.Status != 304 {
				return p
			}
		}
		// ETag set by a 304: find the reply it freshened via the exchange's result
		for j := len(o.Calls) - 1; j >= 0; j-- {
			p := o.Calls[j]
			if p.EndSeq < ex.StartSeq && p.Kind == "resp" && p.Status == 304 && p.RespHdr.Get("Etag") == inm && p.Ex >= 0 {
				if rs := o.Exchanges[p.Ex].Resp; rs != nil {
					if s := world.TokOf(rs.Header); s >= 0 {
						return o.CallBySerial(s)
					}
				}
			}
		}
	}
	return nil
}

// C02: responses that require validation are never reused unvalidated.
func C02(o *world.Obs) *Result {
	r := NewResult()
	for _, ex := range o.Exchanges {
		// (d) the caller's request object is never modified
		if ex.ReqDiff != "" {
			r.Fail("C02", "request-mutated", ex.Idx, "caller's request changed during RoundTrip: %s; %s", ex.ReqDiff, SummarizeExchange(o, ex))
		} else if ex.ReqDiffBg != "" {
			r.Fail("C02", "request-mutated-bg", ex.Idx, "caller's request changed after RoundTrip returned: %s; %s", ex.ReqDiffBg, SummarizeExchange(o, ex))
		}
		if !IsPlainGET(ex.Req) {
			continue
		}
		// (c) upstream request = client request + conditional fields only
		for _, c := range o.CallsOf(ex.Idx) {
			if d := upstreamRequestOK(ex, c); d != "" {
				r.Fail("C02", "upstream-request-altered", ex.Idx, "upstream call s%d differs from the client's request: %s; %s", c.Serial, d, SummarizeExchange(o, ex))
			}
		}
		// labels / non-triviality from the cache's own choice of validation target
		if cand := candidateByValidator(o, ex); cand != nil {
			if reason, _ := validationRequired(o, ex, cand); reason != "" {
				r.NonTrivial = true
				ans := "none"
				for _, c := range o.FgCalls(ex) {
					switch {
					case c.Kind == "err":
						ans = "error"
					case c.Status == 304:
						ans = "304"
					case c.Status >= 500:
						ans = "5xx"
					default:
						ans = "full"
					}
				}
				r.Label("validated:" + reason + ":" + ans)
			}
		}
		if ex.Resp == nil {
			continue
		}
		src, fromStore := o.FromStore(ex)
		if !fromStore {
			continue
		}
		v304 := o.Validated304(ex)
		reqCC := model.ParseCC(ReqHeader(ex.Req))
		reason, unspec := validationRequired(o, ex, src)
		if reason == "request-max-age-exceeded" && v304 == nil && sieInPlay(o, ex, src, reqCC) {
			// a request max-age is not among the directives C02 lists as immune to
			// stale-if-error: not judged when the validation failed and stale-if-error is present
			r.Unspec("c02-max-age-vs-stale-if-error")
			reason = ""
			unspec = false
		}
		if reason != "" {
			r.NonTrivial = true
			kind := "unvalidated-reuse:" + reason
			if reqCC.Has["only-if-cached"] {
				kind += "+only-if-cached"
			}
			switch {
			case v304 == nil:
				r.Label("required:" + reason + ":VIOLATED")
				r.Fail("C02", kind, ex.Idx, "stored reply s%d returned without a 304 in this exchange although validation is required (%s); %s",
					src.Serial, reason, SummarizeExchange(o, ex))
			default:
				r.Label("required:" + reason + ":304")
				// (a client-supplied precondition changes nothing: the 304 that validates the stored
				// reply answers a request carrying the stored validators and no others - a 304
				// triggered by the client's own entity tag says nothing about the stored reply)
				if d := validatorsOK(o, ex, src, v304); d != "" {
					r.Fail("C02", "wrong-validators", ex.Idx, "validation request for s%d: %s; %s", src.Serial, d, SummarizeExchange(o, ex))
				}
			}
		} else if unspec {
			r.Unspec("c02-required")
		} else {
			r.Label("reuse-not-requiring-validation")
		}
		// (b) qualified no-cache fields are not replayed without validation
		if v304 == nil {
			vs := Versions(o, src, ex.StartSeq)
			var named map[string]bool
			for i, v := range vs {
				fields, present, qualified := model.ParseCC(v.Header).NoCache()
				cur := map[string]bool{}
				if present && qualified {
					for _, f := range fields {
						cur[f] = true
					}
				}
				if i == 0 {
					named = cur
				} else {
					for f := range named {
						if !cur[f] {
							delete(named, f)
						}
					}
				}
			}
			names := make([]string, 0, len(named))
			for f := range named {
				names = append(names, f)
			}
			sort.Strings(names)
			for _, f := range names {
				r.NonTrivial = true
				r.Label("qualified-no-cache-reuse")
				if vals := ex.Resp.Header.Values(f); len(vals) > 0 {
					r.Fail("C02", "qualified-field-replayed", ex.Idx, "field %s named by no-cache=%q replayed without validation (%q); %s",
						f, strings.Join(names, ","), vals, SummarizeExchange(o, ex))
				}
			}
		}
	}
	return r
}

// C18: only-if-cached never touches the network.
func C18(o *world.Obs) *Result {
	r := NewResult()
	for _, ex := range o.Exchanges {
		reqCC := model.ParseCC(ReqHeader(ex.Req))
		if !reqCC.Has["only-if-cached"] {
			continue
		}
		if ex.Req.Method != http.MethodGet {
			// "no call to the origin under any circumstances": another method cannot be
			// answered from the store, so all that is left is the 504
			r.Label("only-if-cached-other-method")
			if calls := o.CallsOf(ex.Idx); len(calls) > 0 {
				r.Fail("C18", "origin-contacted:"+methodClass(ex.Req.Method), ex.Idx, "only-if-cached %s request caused %d origin call(s); %s", ex.Req.Method, len(calls), SummarizeExchange(o, ex))
			}
			continue
		}
		if _, ok := seenStored(o, ex); ok {
			r.NonTrivial = true
		}
		if calls := o.CallsOf(ex.Idx); len(calls) > 0 {
			r.Fail("C18", "origin-contacted", ex.Idx, "only-if-cached request caused %d origin call(s); %s", len(calls), SummarizeExchange(o, ex))
			continue
		}
		if ex.Panic != "" {
			continue // C10's business
		}
		if ex.Resp == nil {
			r.Fail("C18", "no-response", ex.Idx, "only-if-cached request returned neither a stored response nor a 504: err=%q; %s", ex.Err, SummarizeExchange(o, ex))
			continue
		}
		src, fromStore := o.FromStore(ex)
		if !fromStore {
			if ex.Resp.Status == http.StatusGatewayTimeout {
				r.Label("504")
			} else {
				r.Fail("C18", "unexpected-response", ex.Idx, "only-if-cached answered with status %d that is neither stored nor a 504; %s", ex.Resp.Status, SummarizeExchange(o, ex))
			}
			continue
		}
		if Tampered(o) {
			// stored bytes were altered behind the cache's back: what it holds is no longer the
			// reply the model knows, so only "no origin contact" is judged
			r.Unspec("c18-tampered-store")
			continue
		}
		reason, unspec := validationRequired(o, ex, src)
		switch {
		case reason != "":
			r.Fail("C18", "served-needs-validation:"+reason, ex.Idx, "only-if-cached answered with stored reply s%d that requires validation (%s); %s", src.Serial, reason, SummarizeExchange(o, ex))
		case unspec:
			r.Unspec("c18-required")
		default:
			r.Label("served-from-store")
		}
	}
	return r
}

func sieInPlay(o *world.Obs, ex *world.Exchange, src *world.Call, reqCC model.CC) bool {
	failed := false
	for _, c := range o.FgCalls(ex) {
		if c.Kind == "err" || (c.Kind == "resp" && sieStatus[c.Status]) {
			failed = true
		}
	}
	return failed && hasSIE(Versions(o, src, ex.StartSeq), reqCC)
}
