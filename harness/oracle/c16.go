package oracle

import (
	"bytes"
	"fmt"
	"net/http"
	"strconv"
	"strings"

	"verif/harness/model"
	"verif/harness/world"
)

// C16: concurrent use of one transport is race-free; responses are caller-owned.
// (The data-race half is decided by the race detector around this monitor.)
func C16(o *world.Obs) *Result {
	r := NewResult()
	// overlap between threads
	for i, a := range o.Exchanges {
		for _, b := range o.Exchanges[i+1:] {
			if a.Thread >= 0 && b.Thread >= 0 && a.Thread != b.Thread && a.StartSeq < b.EndSeq && b.StartSeq < a.EndSeq {
				r.NonTrivial = true
			}
		}
	}
	// fields some request of this history carries under a non-canonical map key
	rawKey := map[string]bool{}
	for _, ex := range o.Exchanges {
		for _, kv := range ex.Req.Header {
			if strings.HasPrefix(kv[0], "!") {
				rawKey[http.CanonicalHeaderKey(kv[0][1:])] = true
				r.Label("non-canonical-request-key")
			}
		}
	}
	// an asynchronous log handler resolves what the cache handed it only later: by then the
	// responses belong to their callers, so nothing it resolves may come from their header maps
	if o.Deferred != "" {
		r.Label("deferred-log-handler")
		for _, marker := range []string{"caller-owned", "scribbled", "PANIC while resolving"} {
			if i := strings.Index(o.Deferred, marker); i >= 0 {
				from := max(0, i-160)
				r.Fail("C16", "log-reads-returned-response", -1, "a log record resolved after the round trips shows what the caller wrote into its response afterwards (%q): ...%s", marker, o.Deferred[from:min(len(o.Deferred), i+80)])
				break
			}
		}
	}
	// no lost update on an entry: once the reply of a LATER origin call has been written under a
	// key, nothing writes an EARLIER reply back over it (a validation that was in flight while
	// the entry was replaced must not bring the replaced representation back)
	lastTok := map[string]*world.Call{}
	seenBefore := map[string]bool{}
	for _, op := range o.Ops {
		if op.Op != "set" || op.Err != "" {
			continue
		}
		i := bytes.Index(op.Val, []byte("\r\nX-Tok: "))
		if i < 0 {
			continue
		}
		rest := op.Val[i+9:]
		j := bytes.Index(rest, []byte("\r\n"))
		if j < 0 {
			continue
		}
		n, err := strconv.Atoi(string(rest[:j]))
		cur := o.CallBySerial(n)
		if err != nil || cur == nil {
			continue
		}
		// (two full replies fetched at about the same time may be stored in either order; what
		// is excluded is A, B, A: the entry held reply A, was replaced by the later reply B, and
		// A is written back)
		seenKey := op.Key + "#" + strconv.Itoa(cur.Serial)
		wasThere := seenBefore[seenKey]
		seenBefore[seenKey] = true
		if prev := lastTok[op.Key]; prev != nil && prev.Serial != cur.Serial && wasThere && cur.Completed && cur.EndSeq < prev.StartSeq {
			r.Fail("C16", "entry-regressed", op.Ex, "key %q held reply s%d (origin call %d..%d) and is overwritten with the older reply s%d (origin call ended at %d, before s%d was even requested): a replaced representation is back in the store", op.Key, prev.Serial, prev.StartSeq, prev.EndSeq, cur.Serial, cur.EndSeq, prev.Serial)
			break
		}
		lastTok[op.Key] = cur
	}
	bgSeen := false
	for _, c := range o.Calls {
		if !c.Fg && c.Ex >= 0 {
			bgSeen = true
		}
	}
	if bgSeen {
		r.Label("background-revalidation")
	}
	for _, ex := range o.Exchanges {
		if ex.Panic != "" {
			r.Fail("C16", "panic", ex.Idx, "RoundTrip panicked under concurrency: %s; %s", panicHead(ex.Panic), SummarizeExchange(o, ex))
			continue
		}
		if ex.ReqDiff != "" {
			r.Fail("C16", "request-mutated", ex.Idx, "the caller's request changed during RoundTrip: %s; %s", ex.ReqDiff, SummarizeExchange(o, ex))
		} else if ex.ReqDiffBg != "" {
			r.Fail("C16", "request-mutated-later", ex.Idx, "the caller's request changed after RoundTrip returned: %s; %s", ex.ReqDiffBg, SummarizeExchange(o, ex))
		}
		if ex.Resp == nil {
			continue
		}
		if ex.Scribbled {
			r.Label("caller-scribbled")
		} else if ex.Resp.HeaderEnd != nil {
			if d := world.DiffHeader(ex.Resp.Header, ex.Resp.HeaderEnd); d != "" {
				r.Fail("C16", "response-changed-after-return", ex.Idx, "the header map of a returned response changed after RoundTrip had returned it: %s; %s", d, SummarizeExchange(o, ex))
			}
		}
		// the status fields are written per response: what another caller did to the values
		// of its own response must not show here
		if st := ex.Resp.Header.Values("X-Httpcache-Status"); len(st) != 1 || !validStatus[st[0]] {
			r.Fail("C16", "status-header-corrupted", ex.Idx, "X-Httpcache-Status = %q; %s", st, SummarizeExchange(o, ex))
			continue
		}
		if fc := ex.Resp.Header.Values("X-From-Cache"); len(fc) > 1 || (len(fc) == 1 && fc[0] != "1") {
			r.Fail("C16", "status-header-corrupted", ex.Idx, "X-From-Cache = %q; %s", fc, SummarizeExchange(o, ex))
			continue
		}
		hdrTok := world.TokOf(ex.Resp.Header)
		if hdrTok < 0 {
			continue // synthesised 504, passed-through 304, ...
		}
		src := o.CallBySerial(hdrTok)
		if src == nil {
			r.Fail("C16", "unknown-token", ex.Idx, "response carries token %d that no origin reply had; %s", hdrTok, SummarizeExchange(o, ex))
			continue
		}
		if bt := world.ParseBodyToken(ex.Resp.Body); bt >= 0 && bt != hdrTok {
			r.Fail("C16", "header-body-mismatch", ex.Idx, "header belongs to reply s%d but the body to reply s%d; %s", hdrTok, bt, SummarizeExchange(o, ex))
			continue
		}
		if ex.Req.Method != "HEAD" && !src.BodyFails() && (!bytes.Equal(ex.Resp.Body, src.Body) || ex.Resp.BodyErr != "") {
			r.Fail("C16", "body-not-intact", ex.Idx, "body of reply s%d arrived with %d of %d bytes (first difference at %d, read error %q); %s", hdrTok, len(ex.Resp.Body), len(src.Body), firstDiff(ex.Resp.Body, src.Body), ex.Resp.BodyErr, SummarizeExchange(o, ex))
			continue
		}
		if src.StartSeq > ex.EndSeq {
			r.Fail("C16", "reply-from-the-future", ex.Idx, "reply s%d was produced after the call returned; %s", hdrTok, SummarizeExchange(o, ex))
		}
		if rel := model.URIRelation(src.URL, ex.Req.URL); rel == "distinct" {
			r.Fail("C16", "wrong-resource", ex.Idx, "reply s%d for %s returned for %s; %s", hdrTok, src.URL, ex.Req.URL, SummarizeExchange(o, ex))
			continue
		}
		own := false
		for _, c := range o.CallsOf(ex.Idx) {
			if c.Serial == hdrTok {
				own = true
			}
		}
		if own {
			continue
		}
		if !IsPlainGET(ex.Req) {
			r.Fail("C16", "stored-reply-for-non-get", ex.Idx, "stored reply s%d returned to %s; %s", hdrTok, ex.Req.Method, SummarizeExchange(o, ex))
			continue
		}
		// right variant under some admissible version (versions known when the call ended)
		h := ReqHeader(ex.Req)
		okVariant := false
		why := ""
		for _, v := range Versions(o, src, ex.EndSeq) {
			fields, star := model.VaryFields(v.Header.Values("Vary"))
			mm := ""
			if star && o.Validated304(ex) == nil {
				mm = "Vary: *"
			}
			for _, f := range fields {
				if rawKey[f] {
					continue // not judged: Go code conventionally does not see such keys
				}
				if model.SurelyDifferentIn(f, v.Req.Values(f), h.Values(f)) {
					mm = fmt.Sprintf("%s: stored for %q, requested with %q", f, v.Req.Values(f), h.Values(f))
				}
			}
			if mm == "" {
				okVariant = true
				break
			}
			why = mm
		}
		if !okVariant {
			r.Fail("C16", "wrong-variant", ex.Idx, "stored reply s%d returned to a request of another variant (%s); %s", hdrTok, why, SummarizeExchange(o, ex))
		}
	}
	return r
}
