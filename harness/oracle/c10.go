package oracle

import (
	"bytes"
	"net/http"
	"strings"

	"verif/harness/model"
	"verif/harness/world"
)

// C10: the transport fails open: no panic, no hang, errors only from the origin.
func C10(o *world.Obs) *Result {
	r := NewResult()
	if strings.Contains(o.Leak, "deadlock") {
		r.Fail("C10", "hang", -1, "the bubble deadlocked: a round trip never returned (%s)", firstLine(o.Leak))
		return r
	}
	faultFired := map[int][]*world.StoreOp{}
	for _, op := range o.Ops {
		if op.Fault != "" {
			faultFired[op.Ex] = append(faultFired[op.Ex], op)
			r.NonTrivial = true
			r.Label("fault:" + op.Op + ":" + op.Fault)
		}
	}
	for _, c := range o.Calls {
		if c.Kind == "err" || (c.Kind == "resp" && (c.Status >= 500 || c.BodyFails())) {
			r.NonTrivial = true
			r.Label("origin-failure")
		}
	}
	for _, ex := range o.Exchanges {
		if ex.Panic != "" {
			kind := "panic"
			if strings.HasPrefix(ex.Panic, "body read") {
				kind = "panic-in-body-read"
			}
			r.Fail("C10", kind, ex.Idx, "RoundTrip panicked: %s | store faults in this exchange: %s; %s", panicHead(ex.Panic), faultList(faultFired[ex.Idx]), SummarizeExchange(o, ex))
			continue
		}
		if ex.NilNil {
			r.Fail("C10", "nil-nil", ex.Idx, "RoundTrip returned neither a response nor an error; %s", SummarizeExchange(o, ex))
			continue
		}
		if ex.Both {
			r.Fail("C10", "resp-and-err", ex.Idx, "RoundTrip returned both a response and an error; %s", SummarizeExchange(o, ex))
			continue
		}
		fg := o.FgCalls(ex)
		if ex.Err != "" {
			if strings.HasPrefix(ex.Err, "harness:") {
				continue
			}
			originErr := false
			for _, c := range fg {
				if c.Kind == "err" || c.CtxErr != "" {
					originErr = true
				}
			}
			if !originErr {
				r.Fail("C10", "error-not-from-origin", ex.Idx, "RoundTrip returned error %q although no origin call of this exchange failed (store faults: %s); %s", ex.Err, faultList(faultFired[ex.Idx]), SummarizeExchange(o, ex))
			}
			continue
		}
		if ex.Resp == nil {
			continue
		}
		_, fromStore := o.FromStore(ex)
		// a failing store read means the request is served by the origin
		for _, op := range faultFired[ex.Idx] {
			if op.Gid != ex.Gid {
				continue // background work that happened to run before RoundTrip returned
			}
			if op.Op == "get" && (op.Fault == "err" || op.Fault == "notexist") && fromStore {
				r.Fail("C10", "served-from-store-despite-read-failure", ex.Idx, "store Get of %q failed (%s) in this exchange, yet the response comes from the store; %s", op.Key, op.Fault, SummarizeExchange(o, ex))
			}
		}
		if fromStore {
			// a response that comes from the store is handed out as soon as the origin has answered
			// (or failed): nothing is waited for after that - not the body of a reply that is dropped
			{
				last := ex.StartNs
				for _, c := range fg {
					if c.Completed && c.EndNs > last {
						last = c.EndNs
					}
				}
				if ex.EndNs > last {
					r.Fail("C10", "waited-after-origin-answered", ex.Idx, "the stored response was returned %s after the last origin call of the exchange had ended; %s", secs(ex.EndNs-last), SummarizeExchange(o, ex))
				}
			}
			// A store that returns only the beginning of what was written (a truncated file, a
			// short read) can be told from one that returns everything: a stored response that
			// ends early must not be handed out as if it were whole.
			if src, _ := o.FromStore(ex); src != nil && onlyPrefixFaults(o) && ex.Req.Method != http.MethodHead && !src.BodyFails() {
				if ex.Resp.BodyErr != "" || !bytes.Equal(ex.Resp.Body, src.Body) {
					r.Fail("C10", "truncated-entry-served", ex.Idx, "stored reply s%d (%d bytes) is served from a store that returned truncated bytes: the client read %d bytes, error %q; store faults: %s; %s",
						src.Serial, len(src.Body), len(ex.Resp.Body), ex.Resp.BodyErr, faultList(faultFired[ex.Idx]), SummarizeExchange(o, ex))
				}
			}
			continue
		}
		reqCC := model.ParseCC(ReqHeader(ex.Req))
		if len(fg) == 0 {
			if ex.Resp.Status == http.StatusGatewayTimeout && reqCC.Has["only-if-cached"] {
				continue
			}
			if world.TokOf(ex.Resp.Header) < 0 && ex.Resp.Header.Get("X-Val") == "" {
				if len(faultFired[ex.Idx]) > 0 || Tampered(o) {
					// garbage decoded from mutated bytes: content not judged (no checksum exists)
					r.Unspec("c10-mutated-bytes-decoded")
					continue
				}
			}
			continue
		}
		// whatever failed underneath, a client that asked unconditionally gets a full response:
		// a 304 is an answer to conditional fields, and this client sent none
		if ex.Resp.Status == http.StatusNotModified && !HasClientConditional(ex.Req) && IsPlainGET(ex.Req) && !bytesMutated(o) {
			r.Fail("C10", "unsolicited-304", ex.Idx, "the client sent no conditional fields but is handed a 304 (store faults: %s); %s", faultList(faultFired[ex.Idx]), SummarizeExchange(o, ex))
			continue
		}
		// the origin's reply of this exchange: complete and correct
		for _, c := range fg {
			if c.Kind != "resp" {
				continue
			}
			// a 304 that validated a stored entry yields that entry, not the 304 itself
			own := world.TokOf(ex.Resp.Header) == c.Serial ||
				(ex.Resp.Header.Get("X-Val") == itoa(c.Serial) && ex.Resp.Status == http.StatusNotModified)
			if !own {
				continue
			}
			if ex.Req.Method == http.MethodHead {
				continue
			}
			if c.BodyFails() {
				if ex.Resp.BodyErr == "" {
					r.Fail("C10", "failed-body-presented-as-clean", ex.Idx, "the origin's body fails after %d bytes but the client read %d bytes and no error; %s", c.FailAt-1, len(ex.Resp.Body), SummarizeExchange(o, ex))
				}
				if !bytes.HasPrefix(c.Body, ex.Resp.Body) {
					// whatever arrives before the failure is the beginning of the origin's body -
					// whenever the client gets round to reading it
					r.Fail("C10", "failed-body-foreign-bytes", ex.Idx, "the origin's body (s%d) fails part-way; the %d bytes the client read before the error are not a prefix of it (first difference at %d); %s", c.Serial, len(ex.Resp.Body), firstDiff(ex.Resp.Body, c.Body), SummarizeExchange(o, ex))
				}
				continue
			}
			if ex.Resp.Status != c.Status || !bytes.Equal(ex.Resp.Body, c.Body) || ex.Resp.BodyErr != "" {
				r.Fail("C10", "origin-reply-damaged", ex.Idx, "origin reply s%d (status %d, %d bytes) reached the client as status %d with %d bytes (read error %q); store faults: %s; %s",
					c.Serial, c.Status, len(c.Body), ex.Resp.Status, len(ex.Resp.Body), ex.Resp.BodyErr, faultList(faultFired[ex.Idx]), SummarizeExchange(o, ex))
			}
		}
	}
	// "an error only when ... no stale response may be used": where C13's model says the stored
	// response MUST be served, returning the failure instead is a C10 violation as well
	if !Tampered(o) {
		for _, v := range C13(o).Violations {
			if v.Kind == "not-served-in-window" {
				r.Fail("C10", "failure-returned-although-stale-allowed", v.Ex, "%s", v.Detail)
			}
		}
	}
	// every origin reply the cache does not hand on is closed (a dropped body pins a
	// connection of a real transport: with a connection limit the next round trip hangs)
	panicked := false
	for _, ex := range o.Exchanges {
		if ex.Panic != "" {
			panicked = true
		}
	}
	if !panicked && o.Fatal == "" {
		for _, c := range UnclosedBodies(o) {
			r.Fail("C10", "upstream-body-not-closed", c.Ex, "the body of origin reply s%d (status %d, %s call of exchange #%d) was never closed", c.Serial, c.Status, map[bool]string{true: "foreground", false: "background"}[c.Fg], c.Ex)
			break
		}
	}
	if o.Leak != "" && !strings.Contains(o.Leak, "deadlock") {
		r.Fail("C10", "goroutine-leak", -1, "goroutines still blocked when the scenario ended: %s", firstLine(o.Leak))
	}
	return r
}

func panicHead(p string) string {
	lines := strings.Split(p, "\n")
	out := lines[0]
	for _, l := range lines[1:] {
		if strings.Contains(l, "bartventer/httpcache") && !strings.Contains(l, "verif/harness") {
			out += " @ " + strings.TrimSpace(l)
			break
		}
	}
	return out
}

func faultList(ops []*world.StoreOp) string {
	if len(ops) == 0 {
		return "none"
	}
	var parts []string
	for _, op := range ops {
		parts = append(parts, op.Op+" "+op.Key+" -> "+op.Fault)
	}
	return strings.Join(parts, "; ")
}

// bytesMutated: some store operation of the scenario hands the cache bytes other than those it
// wrote (they may decode to anything, a stored 304 included; no checksum exists).
func bytesMutated(o *world.Obs) bool {
	for _, f := range o.Sc.Faults {
		switch f.Kind {
		case "err", "notexist", "rlimit", "crash":
		default:
			return true
		}
	}
	for _, st := range o.Sc.Steps {
		if st.Op == "corrupt" {
			return true
		}
	}
	return false
}

// onlyPrefixFaults: every store fault of the scenario either fails the operation or returns a
// prefix of the bytes that were written (no flipped or foreign bytes), and nothing else tampers
// with the store.
func onlyPrefixFaults(o *world.Obs) bool {
	for _, f := range o.Sc.Faults {
		switch f.Kind {
		case "err", "notexist", "trunc", "empty", "rlimit":
		default:
			return false
		}
	}
	for _, st := range o.Sc.Steps {
		if st.Op == "corrupt" {
			return false
		}
	}
	return len(o.Sc.Faults) > 0
}
