package oracle

import (
	"fmt"
	"strings"

	"verif/harness/world"
)

// Vector renders the caching decisions of a run: per exchange the outcome and the upstream
// calls it caused, plus every store write. Header values are deliberately not part of it.
func Vector(o *world.Obs) []string {
	var out []string
	for _, ex := range o.Exchanges {
		var b strings.Builder
		fmt.Fprintf(&b, "#%d t=%d..%d ", ex.Idx, ex.StartNs, ex.EndNs)
		switch {
		case ex.Panic != "":
			b.WriteString("PANIC")
		case ex.Err != "":
			b.WriteString("err")
		case ex.Resp != nil:
			fmt.Fprintf(&b, "%d %s tok=%s val=%s bodylen=%d", ex.Resp.Status, ex.Resp.Header.Get("X-Httpcache-Status"), ex.Resp.Header.Get("X-Tok"), ex.Resp.Header.Get("X-Val"), len(ex.Resp.Body))
			// which of the fields a qualified no-cache may name are on the response (equivalent
			// spellings of the directive withhold the same fields)
			for _, f := range []string{"X-Secret", "X-Other", "X-Plain", "Etag", "Last-Modified"} {
				if len(ex.Resp.Header.Values(f)) > 0 {
					b.WriteString(" +" + f)
				}
			}
		}
		for _, c := range o.CallsOf(ex.Idx) {
			fmt.Fprintf(&b, " [s%d fg=%v inm=%q ims=%q %s %d t=%d..%d]", c.Serial, c.Fg, c.Header.Get("If-None-Match"), c.Header.Get("If-Modified-Since"), c.Kind, c.Status, c.StartNs, c.EndNs)
		}
		out = append(out, b.String())
	}
	sets, dels := 0, 0
	for _, op := range o.Ops {
		switch op.Op {
		case "set":
			sets++
		case "delete":
			dels++
		}
	}
	out = append(out, fmt.Sprintf("store: sets=%d deletes=%d", sets, dels))
	if len(o.Keys) > 0 {
		out = append(out, fmt.Sprintf("keys: %v", o.Keys[len(o.Keys)-1]))
	}
	return out
}

// C12: equivalent spellings of Cache-Control behave identically (metamorphic).
func C12(a, b *world.Obs, kinds string) *Result {
	r := NewResult()
	va, vb := Vector(a), Vector(b)
	decisions := false
	for _, ex := range a.Exchanges {
		if _, ok := seenStored(a, ex); ok {
			decisions = true
		}
	}
	for _, op := range a.Ops {
		if op.Op == "set" {
			decisions = true
		}
	}
	if kinds != "" && decisions {
		r.NonTrivial = true
	}
	for _, k := range strings.Split(kinds, ",") {
		if k != "" {
			r.Label("rewrite:" + k)
		}
	}
	n := len(va)
	if len(vb) < n {
		n = len(vb)
	}
	for i := 0; i < n; i++ {
		if va[i] != vb[i] {
			ex := -1
			if i < len(a.Exchanges) {
				ex = i
			}
			detail := ""
			if ex >= 0 {
				detail = fmt.Sprintf("; canonical request %v reply %v; respelled request %v reply %v",
					a.Exchanges[ex].Req.Header, a.Exchanges[ex].Req.Uncond.Header, b.Exchanges[ex].Req.Header, b.Exchanges[ex].Req.Uncond.Header)
			}
			r.Fail("C12", "spelling-changes-behaviour:"+firstKind(kinds), ex, "canonical and respelled histories diverge (rewrites: %s):\n  canonical: %s\n  respelled: %s%s", kinds, va[i], vb[i], detail)
			return r
		}
	}
	if len(va) != len(vb) {
		r.Fail("C12", "spelling-changes-behaviour:length", -1, "observation vectors differ in length: %d vs %d", len(va), len(vb))
	}
	return r
}

func firstKind(k string) string {
	if i := strings.IndexByte(k, ','); i >= 0 {
		return "multi"
	}
	if k == "" {
		return "none"
	}
	return k
}
