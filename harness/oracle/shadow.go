package oracle

import (
	"net/http"
	"net/url"
	"sort"
	"strconv"

	"verif/harness/model"
	"verif/harness/world"
)

// Shadow is the least-permissive model of what MUST be in the store. It is used only by the
// positive properties (C09, C08, the cross-origin half of C07): it never predicts a miss, it
// only lists exchanges that are obliged to be answered from the store.

type ShadowEntry struct {
	URLNF     string
	URL       string
	Fields    []string    // nominated request fields (Vary), nil if none
	ReqHeader http.Header // request that obtained the reply
	Reply     *world.Call
	Versions  []model.Version // [0] original, last = latest (restarted clocks)
	Certain   bool
	Why       string // why uncertain
	StoredSeq int64
	Validated int         // number of 304s applied
	Replaced  *world.Call // the reply this one replaced after a validation (nil if none)
}

func (e *ShadowEntry) Latest() model.Version { return e.Versions[len(e.Versions)-1] }

type Obligation struct {
	Ex    *world.Exchange
	Entry *ShadowEntry
	V     model.Version // version the served response must reflect
	NVers int
	Kind  string // fresh-hit | after-304 | after-replace
}

type Shadow struct {
	Obligations []Obligation
	Dead        map[int]int64 // serial -> sequence number from which it must never be returned
	DeadBy      map[int]int   // serial -> serial of the replacing reply
	Disabled    string
	entries     map[string][]*ShadowEntry // by strict NF
}

func requestIsPlain(rq *world.Req) bool {
	if !IsPlainGET(rq) {
		return false
	}
	h := ReqHeader(rq)
	for _, k := range []string{"Cache-Control", "Pragma", "If-None-Match", "If-Modified-Since", "If-Match", "If-Unmodified-Since", "If-Range"} {
		if len(h.Values(k)) > 0 {
			return false
		}
	}
	return true
}

// match: "yes" (surely the entry's variant), "no" (surely another variant), "maybe".
func (e *ShadowEntry) match(h http.Header) string {
	res := "yes"
	for _, f := range e.Fields {
		a, b := e.ReqHeader.Values(f), h.Values(f)
		switch {
		case model.DocumentedSame(f, a, b):
		case model.SurelyDifferentIn(f, a, b):
			return "no"
		default:
			res = "maybe"
		}
	}
	return res
}

func resolveLoc(base, loc string) (string, bool) {
	b, err := url.Parse(base)
	if err != nil {
		return "", false
	}
	l, err := url.Parse(loc)
	if err != nil {
		return "", false
	}
	return b.ResolveReference(l).String(), true
}

// BuildShadow replays the observation log through the shadow model.
func BuildShadow(o *world.Obs) *Shadow { return buildShadow(o, nil) }

// buildShadow: ignoreLoc lists exchanges whose Location/Content-Location fields are to be
// ignored (used by C07's positive half for cross-origin references).
func buildShadow(o *world.Obs, ignoreLoc map[int]bool) *Shadow {
	sh := &Shadow{Dead: map[int]int64{}, DeadBy: map[int]int{}, entries: map[string][]*ShadowEntry{}}
	if len(o.Sc.Faults) > 0 {
		sh.Disabled = "store faults planned"
		return sh
	}
	for _, st := range o.Sc.Steps {
		if st.Op == "corrupt" {
			sh.Disabled = "store tampering"
			return sh
		}
	}
	// timeline: exchange starts (obligations are decided on the state at that instant) and
	// call completions (the store changes when a reply has been handled), in sequence order
	type event struct {
		seq  int64
		ex   *world.Exchange
		call *world.Call // nil: start of ex
	}
	var evs []event
	for _, ex := range o.Exchanges {
		evs = append(evs, event{seq: ex.StartSeq, ex: ex})
	}
	for _, c := range o.Calls {
		if c.Ex < 0 || c.Ex >= len(o.Exchanges) {
			continue
		}
		end := c.EndSeq
		if !c.Completed {
			end = 1 << 62
		}
		evs = append(evs, event{seq: end, ex: o.Exchanges[c.Ex], call: c})
	}
	sort.SliceStable(evs, func(i, j int) bool { return evs[i].seq < evs[j].seq })
	inFlight := func(nf string, at int64) bool {
		for _, c := range o.Calls {
			if c.Ex < 0 || c.Ex >= len(o.Exchanges) || c.StartSeq >= at {
				continue
			}
			if c.Completed && c.EndSeq <= at {
				continue
			}
			if cnf, ok := model.NF(o.Exchanges[c.Ex].Req.URL, false); ok && cnf == nf {
				return true
			}
		}
		return false
	}
	for _, ev := range evs {
		ex := ev.ex
		nf, ok := model.NF(ex.Req.URL, false)
		if !ok {
			continue
		}
		h := ReqHeader(ex.Req)
		if ev.call == nil {
			if !IsPlainGET(ex.Req) {
				continue
			}
			// obligation?
			var sure []*ShadowEntry
			blockers := 0
			for key, list := range sh.entries {
				rel := "equiv"
				if key != nf {
					rel = "distinct"
					if len(list) > 0 && model.URIRelation(list[0].URL, ex.Req.URL) == "unspecified" {
						rel = "unspecified"
					}
				}
				if rel == "distinct" {
					continue
				}
				for _, e := range list {
					m := e.match(h)
					if m == "no" {
						continue
					}
					if rel == "equiv" && m == "yes" && e.Certain {
						sure = append(sure, e)
					} else {
						blockers++
					}
				}
			}
			if requestIsPlain(ex.Req) && len(sure) == 1 && blockers == 0 && !inFlight(nf, ex.StartSeq) {
				e := sure[0]
				v := e.Latest()
				cc := model.ParseCC(v.Header)
				if fresh, _, _, _ := v.FreshByMargin(ex.StartNs, 1); fresh && !cc.Has["no-cache"] && !cc.Has["no-store"] {
					kind := "fresh-hit"
					if e.Validated > 0 {
						kind = "after-304"
					} else if e.Replaced != nil {
						kind = "after-replace"
					}
					sh.Obligations = append(sh.Obligations, Obligation{Ex: ex, Entry: e, V: v, NVers: len(e.Versions), Kind: kind})
				}
			}
			continue
		}
		c := ev.call
		if !IsPlainGET(ex.Req) {
			// an unsafe exchange: handled when its (foreground) call completes
			safe, _ := model.IsSafeMethod(ex.Req.Method)
			if safe {
				continue // bypass: no effect on stored entries
			}
			delete(sh.entries, nf)
			if c.Kind != "resp" || ignoreLoc[ex.Idx] {
				continue
			}
			for _, k := range []string{"Location", "Content-Location"} {
				for _, loc := range c.RespHdr.Values(k) {
					if abs, ok := resolveLoc(ex.Req.URL, loc); ok {
						// a URI of another origin is not invalidated (RFC 9111 §4.4), so the real
						// cache keeps that entry: it stays in the shadow as well, but uncertain
						o1, ok1 := model.Origin(ex.Req.URL)
						o2, ok2 := model.Origin(abs)
						if lnf, ok := model.NF(abs, false); ok && (!ok1 || !ok2 || o1 == o2) {
							delete(sh.entries, lnf)
						}
						// anything not surely distinct from the location loses certainty
						for key, list := range sh.entries {
							if len(list) > 0 && model.URIRelation(list[0].URL, abs) != "distinct" {
								for _, e := range sh.entries[key] {
									e.Certain = false
									e.Why = "possibly invalidated via " + k
								}
							}
						}
					}
				}
			}
			continue
		}
		if !c.Completed {
			sh.markUncertain(nf, h, "call never completed")
			continue
		}
		if c.Kind != "resp" {
			continue
		}
		if c.Status == http.StatusNotModified {
			if HasClientConditional(ex.Req) {
				// the client's own conditional request: the 304 is passed through
				sh.markUncertain(nf, h, "client conditional")
				continue
			}
			target := sh.find304Target(nf, h, c)
			if !c.Fg && overlapsOther(o, c, nf, target) {
				// a background validation in flight together with another request for the same
				// variant (a reload, a second background validation): which one the store ends
				// up reflecting is not judged (DESIGN §3.21, §9)
				sh.markUncertain(nf, h, "concurrent background validations")
				continue
			}
			if target == nil {
				sh.markUncertain(nf, h, "304 without identifiable target")
				continue
			}
			cur := target.Latest()
			if _, kind := cur.AgeField(); kind != "absent" && len(c.RespHdr.Values("Age")) == 0 {
				// DESIGN §3.21: original carried Age and the 304 does not -> age restart not demanded
				target.Certain = false
				target.Why = "Age carried over a 304"
			}
			merged := model.Merge304(cur.Header, c.RespHdr, c.EndNs)
			target.Versions = append(target.Versions, model.Version{Status: cur.Status, Header: merged, ReqNs: c.StartNs, RespNs: c.EndNs, Why: "304 s" + strconv.Itoa(c.Serial)})
			target.Validated++
			// a 304 may change the Vary field: the variant is then keyed by the
			// validating request's values of the newly nominated fields
			if len(c.RespHdr.Values("Vary")) > 0 {
				fields, star := model.VaryFields(merged.Values("Vary"))
				target.Fields = fields
				target.ReqHeader = h
				if star {
					target.Certain = false
					target.Why = "Vary: * after 304"
				}
			}
			continue
		}
		// full reply
		verdict, why := model.Storability(c.Method, c.Header, c.Status, c.RespHdr, c.BodyFails() || c.Short > 0)
		// entries that the request selects are replaced (or left in an unknown state)
		var validated *ShadowEntry
		if inm := c.Header.Get("If-None-Match"); inm != "" {
			for _, e := range sh.entries[nf] {
				if e.Latest().Header.Get("Etag") == inm {
					validated = e
				}
			}
		}
		kept := sh.entries[nf][:0]
		for _, e := range sh.entries[nf] {
			m := e.match(h)
			if m == "no" {
				kept = append(kept, e)
				continue
			}
			if verdict == "sure" && e == validated && e.Certain {
				sh.Dead[e.Reply.Serial] = c.EndSeq
				sh.DeadBy[e.Reply.Serial] = c.Serial
			}
			if verdict != "sure" {
				e.Certain = false
				e.Why = "full reply with storability " + verdict + " (" + why + ")"
				kept = append(kept, e)
			} else if validated != nil && e != validated {
				// several stored variants matched the request (their Vary fields differ): the
				// full reply replaces the one that was validated; whether another matching one
				// goes as well is the cache's choice
				e.Certain = false
				e.Why = "another matching variant was replaced"
				kept = append(kept, e)
			}
		}
		sh.entries[nf] = kept
		if verdict == "no" {
			continue
		}
		fields, star := model.VaryFields(c.RespHdr.Values("Vary"))
		ne := &ShadowEntry{URLNF: nf, URL: ex.Req.URL, Fields: fields, ReqHeader: h, Reply: c, Certain: verdict == "sure" && !star,
			Why: why, StoredSeq: c.EndSeq,
			Versions: []model.Version{{Status: c.Status, Header: c.RespHdr.Clone(), ReqNs: c.StartNs, RespNs: c.EndNs, Why: "original"}}}
		if validated != nil {
			ne.Replaced = validated.Reply
		}
		if !c.Fg && (!c.Completed || overlapsOther(o, c, nf, ne)) {
			// stored by a background goroutine while other requests for the URL were running:
			// which writer's index update wins is not judged (DESIGN §3.21)
			ne.Certain = false
			ne.Why = "stored concurrently with other exchanges"
		}
		if len(ex.Req.Header) > 0 && model.ParseCC(h).Has["no-store"] {
			ne.Certain = false
		}
		sh.entries[nf] = append(sh.entries[nf], ne)
	}
	return sh
}

// overlapsOther: another call for the same URL - and, as far as can be told, for the variant
// of entry e (nil: any) - was in flight at some time during c. A request for a variant that is
// surely another one is no concurrent writer of e: the write-back of c works on the index as it
// is when c ends, so what that request stored is still there afterwards, and what c brings
// reaches e.
func overlapsOther(o *world.Obs, c *world.Call, nf string, e *ShadowEntry) bool {
	for _, d := range o.Calls {
		if d == c || d.Ex < 0 || d.Ex >= len(o.Exchanges) {
			continue
		}
		if d.StartSeq < c.EndSeq && (!d.Completed || d.EndSeq > c.StartSeq) {
			rq := o.Exchanges[d.Ex].Req
			if dnf, ok := model.NF(rq.URL, false); ok && dnf == nf {
				if e == nil || e.match(ReqHeader(rq)) != "no" {
					return true
				}
			}
		}
	}
	return false
}

func (sh *Shadow) markUncertain(nf string, h http.Header, why string) {
	for _, e := range sh.entries[nf] {
		if e.match(h) != "no" {
			e.Certain = false
			e.Why = why
		}
	}
}

// find304Target identifies the entry a 304 refers to: by ETag when the request carried
// If-None-Match, else the unique entry the request selects.
func (sh *Shadow) find304Target(nf string, h http.Header, c *world.Call) *ShadowEntry {
	if inm := c.Header.Get("If-None-Match"); inm != "" {
		var hit *ShadowEntry
		for _, e := range sh.entries[nf] {
			if e.Latest().Header.Get("Etag") == inm {
				if hit != nil {
					return nil
				}
				hit = e
			}
		}
		return hit
	}
	var hit *ShadowEntry
	for _, e := range sh.entries[nf] {
		switch e.match(h) {
		case "yes":
			if hit != nil {
				return nil
			}
			hit = e
		case "maybe":
			return nil // which entry the request selected is not certain
		}
	}
	return hit
}

// CrossOriginEntries returns entries currently known for a URL (used by C07's positive half).
func (sh *Shadow) Entries(nf string) []*ShadowEntry { return sh.entries[nf] }
