package oracle

import (
	"encoding/json"
	"fmt"
	"sort"
	"strings"

	"verif/harness/model"
	"verif/harness/world"
)

// C04: a stored response is reused only for a matching variant (Vary).
func C04(o *world.Obs) *Result {
	r := NewResult()
	varySeen := map[string]bool{}
	differing := 0
	var prevReq *world.Exchange
	for _, ex := range o.Exchanges {
		for _, c := range o.CallsOf(ex.Idx) {
			if c.Kind == "resp" {
				if v := strings.Join(c.RespHdr.Values("Vary"), ","); v != "" {
					varySeen[v] = true
				}
			}
		}
		if prevReq != nil {
			for _, f := range []string{"X-A", "X-B", "Accept-Encoding", "Accept-Language", "Authorization", "Cookie", "User-Agent"} {
				if model.SurelyDifferentIn(f, ReqHeader(prevReq.Req).Values(f), ReqHeader(ex.Req).Values(f)) {
					differing++
					break
				}
			}
		}
		prevReq = ex
		if ex.Resp == nil || !IsPlainGET(ex.Req) {
			continue
		}
		src, fromStore := o.FromStore(ex)
		if !fromStore || o.Validated304(ex) != nil {
			continue
		}
		if rel := model.URIRelation(src.URL, ex.Req.URL); rel != "equiv" {
			continue // C03's business
		}
		h := ReqHeader(ex.Req)
		vs := VersionsApplied(o, src, ex.StartSeq)
		mismatchAll := true
		onlyRefusals := true
		hashCollision := false
		why := ""
		anyVary := false
		for _, v := range vs {
			fields, star := model.VaryFields(v.Header.Values("Vary"))
			if len(fields) > 0 || star {
				anyVary = true
			}
			mm := ""
			if star {
				mm = "Vary: * never matches"
			}
			for _, f := range fields {
				if model.SurelyDifferentIn(f, v.Req.Values(f), h.Values(f)) {
					mm = fmt.Sprintf("%s: stored for %q, requested with %q", f, v.Req.Values(f), h.Values(f))
					if !(model.OnlyRefusals(v.Req.Values(f)) || model.OnlyRefusals(h.Values(f))) {
						onlyRefusals = false
					}
					break
				}
			}
			if mm == "" {
				mismatchAll = false
				break
			}
			if !star && len(fields) > 0 {
				a, b := map[string]string{}, map[string]string{}
				for _, f := range fields {
					a[f], b[f] = strings.Join(v.Req.Values(f), ", "), strings.Join(h.Values(f), ", ")
				}
				if model.VariantHash(fields, a) == model.VariantHash(fields, b) {
					hashCollision = true
				}
			}
			if why == "" {
				why = mm + " (Vary=" + strings.Join(v.Header.Values("Vary"), ",") + ")"
			}
		}
		if anyVary {
			r.Label("reuse-of-varying-reply")
		}
		if mismatchAll {
			kind := "wrong-variant"
			if strings.Contains(why, "Vary: *") {
				kind = "vary-star-reused"
			} else if hashCollision {
				// the two value sets are different but the 64-bit hash the store key is
				// derived from is the same for both
				kind = "wrong-variant:variant-hash-collision"
			} else if onlyRefusals {
				// the two requests differ in a field whose value, on one side, only refuses
				// things (every member has q=0) and is absent on the other
				kind = "wrong-variant:refusals-only-vs-absent"
			}
			r.Fail("C04", kind, ex.Idx, "stored reply s%d returned to a request of a different variant: %s; %s", src.Serial, why, SummarizeExchange(o, ex))
		}
	}
	if len(varySeen) > 0 && differing >= 1 {
		r.NonTrivial = true
	}
	if len(varySeen) > 1 {
		r.Label("vary-changed-over-time")
	}
	for v := range varySeen {
		if strings.Contains(v, "*") {
			r.Label("vary-star-seen")
		}
	}
	return r
}

// C19: the store footprint is bounded by the distinct resources and variants requested.
func C19(o *world.Obs) *Result {
	r := NewResult()
	// alphabet sizes, from the scenario itself
	uris := map[string]bool{}
	combos := map[string]bool{}
	varies := map[string]bool{"": true}
	for _, st := range o.Sc.Steps {
		if st.Op != "req" {
			continue
		}
		nf, _ := model.NF(st.Req.URL, false)
		uris[nf] = true
		hs := append([][2]string(nil), st.Req.Header...)
		sort.Slice(hs, func(i, j int) bool { return hs[i][0]+"\x00"+hs[i][1] < hs[j][0]+"\x00"+hs[j][1] })
		b, _ := json.Marshal(hs)
		combos[string(b)] = true
		for _, rp := range []*world.Reply{&st.Req.Uncond, st.Req.Cond, st.Req.Bg} {
			if rp == nil {
				continue
			}
			for _, kv := range rp.Header {
				if kv[0] == "Vary" {
					varies[kv[1]] = true
				}
			}
		}
	}
	U, V, W := len(uris), len(combos), len(varies)
	keyBound := U * (1 + V*W)
	idxBound := V * W
	nreq := len(o.Exchanges)
	if nreq >= 40 && len(varies) > 1 {
		r.NonTrivial = true
	}
	maxKeys, maxIdx := 0, 0
	for si := range o.Keys {
		if n := len(o.Keys[si]); n > maxKeys {
			maxKeys = n
		}
		if len(o.Keys[si]) > keyBound {
			r.Fail("C19", "key-count-exceeds-bound", -1, "after step %d the store holds %d keys; bound U(1+VW) = %d(1+%d*%d) = %d; keys=%v", si, len(o.Keys[si]), U, V, W, keyBound, o.Keys[si])
			break
		}
	}
	// index sizes: decode every successfully stored value that is a JSON list
	for _, op := range o.Ops {
		if op.Op != "set" || op.Err != "" || len(op.Val) == 0 || op.Val[0] != '[' {
			continue
		}
		var list []json.RawMessage
		if json.Unmarshal(op.Val, &list) != nil {
			continue
		}
		if len(list) > maxIdx {
			maxIdx = len(list)
		}
		if len(list) > idxBound {
			r.Fail("C19", "index-exceeds-bound", op.Ex, "index %q has %d members after %d requests; bound V*W = %d*%d = %d", op.Key, len(list), op.Ex+1, V, W, idxBound)
			break
		}
	}
	r.Labels["max-keys"] = maxKeys
	r.Labels["max-index"] = maxIdx
	for v := range varies {
		if strings.Contains(v, "*") {
			r.Label("vary-star")
		}
	}
	if W > 2 {
		r.Label("vary-changes")
	}
	// invalidation removes every key it makes unreachable
	for _, ex := range o.Exchanges {
		safe, _ := model.IsSafeMethod(ex.Req.Method)
		if safe || ex.Resp == nil || ex.Resp.Status < 200 || ex.Resp.Status >= 400 {
			continue
		}
		r.Label("invalidation")
		targets := []string{ex.Req.URL}
		for _, c := range o.FgCalls(ex) {
			if c.Kind != "resp" {
				continue
			}
			for _, k := range []string{"Location", "Content-Location"} {
				if locs := c.RespHdr.Values(k); len(locs) == 1 {
					if abs, ok := resolveLoc(ex.Req.URL, locs[0]); ok {
						o1, ok1 := model.Origin(ex.Req.URL)
						o2, ok2 := model.Origin(abs)
						if ok1 && ok2 && o1 == o2 {
							targets = append(targets, abs)
						}
					}
				}
			}
		}
		for _, target := range targets {
			c19CheckInvalidated(o, r, ex, target)
		}
	}
	return r
}

// c19CheckInvalidated: after the successful unsafe exchange ex, no key that was reachable from
// the index of target remains in the store.
func c19CheckInvalidated(o *world.Obs, r *Result, ex *world.Exchange, target string) {
	{
		// the index key is the first key read in an earlier GET exchange for an equivalent URI
		nf, _ := model.NF(target, false)
		idxKey := ""
		for _, op := range o.Ops {
			if op.Ex >= 0 && op.Ex < len(o.Exchanges) && op.Op == "get" {
				if onf, _ := model.NF(o.Exchanges[op.Ex].Req.URL, false); onf == nf && IsPlainGET(o.Exchanges[op.Ex].Req) {
					idxKey = op.Key
					break
				}
			}
		}
		if idxKey == "" {
			return
		}
		// reachable ids: the last successfully stored index value before the unsafe exchange
		var reach []string
		for _, op := range o.Ops {
			if op.Seq >= ex.StartSeq {
				break
			}
			if op.Key == idxKey && op.Err == "" {
				switch op.Op {
				case "set":
					var refs []struct {
						ID string `json:"id"`
					}
					if json.Unmarshal(op.Val, &refs) == nil {
						reach = reach[:0]
						for _, x := range refs {
							reach = append(reach, x.ID)
						}
						reach = append(reach, idxKey)
					}
				case "delete", "ext-delete":
					reach = nil // (an index removed behind the cache's back makes its entries unreachable; no invalidation did)
				}
			}
		}
		if len(reach) == 0 || ex.Step >= len(o.Keys) {
			return
		}
		r.NonTrivial = true
		live := map[string]bool{}
		for _, k := range o.Keys[ex.Step] {
			live[k] = true
		}
		for _, k := range reach {
			if live[k] {
				r.Fail("C19", "invalidation-leaves-key", ex.Idx, "after the successful %s on %s (invalidating %s), key %q (reachable from that URI's index before) is still stored; %s", ex.Req.Method, ex.Req.URL, target, k, SummarizeExchange(o, ex))
				break
			}
		}
	}
}

// C19Crash: the process died (fault kind "crash") inside a successful unsafe exchange. For every
// URI the exchange invalidates: if its index is gone, nothing that was reachable from that index
// before may still be stored (it would be unreachable for ever).
func C19Crash(o *world.Obs) *Result {
	r := NewResult()
	for _, ex := range o.Exchanges {
		if !strings.Contains(ex.Panic, world.CrashSentinel) {
			if ex.Panic != "" {
				r.Fail("C19", "panic", ex.Idx, "panic: %s", firstLine(ex.Panic))
			}
			continue
		}
		r.NonTrivial = true
		r.Label("crash-in-exchange")
		if ex.Step >= len(o.Keys) {
			continue
		}
		live := map[string]bool{}
		for _, k := range o.Keys[ex.Step] {
			live[k] = true
		}
		// every index that existed before the exchange: key -> ids it listed
		idx := map[string][]string{}
		for _, op := range o.Ops {
			if op.Seq >= ex.StartSeq {
				break
			}
			if op.Op == "set" && op.Err == "" && len(op.Val) > 0 && op.Val[0] == '[' {
				var refs []struct {
					ID string `json:"id"`
				}
				if json.Unmarshal(op.Val, &refs) == nil {
					ids := make([]string, 0, len(refs))
					for _, x := range refs {
						ids = append(ids, x.ID)
					}
					idx[op.Key] = ids
				}
			} else if op.Op == "delete" && op.Err == "" {
				delete(idx, op.Key)
			}
		}
		for key, ids := range idx {
			if live[key] {
				continue // index still there: its entries are still reachable
			}
			for _, id := range ids {
				if live[id] {
					r.Fail("C19", "crash-leaves-unreachable-key", ex.Idx, "the process died inside the %s on %s after deleting the index %q; the entry %q it referenced is still stored and can never be reached or removed", ex.Req.Method, ex.Req.URL, key, id)
					return r
				}
			}
		}
	}
	return r
}
