package oracle

import (
	"net/http"

	"verif/harness/model"
	"verif/harness/world"
)

var validStatus = map[string]bool{"HIT": true, "STALE": true, "REVALIDATED": true, "MISS": true, "BYPASS": true}

// C11: Age and cache-status fields tell the truth.
func C11(o *world.Obs) *Result {
	r := NewResult()
	for _, ex := range o.Exchanges {
		if ex.Resp == nil {
			continue
		}
		st := ex.Resp.Header.Values("X-Httpcache-Status")
		if len(st) != 1 || !validStatus[st[0]] {
			r.Fail("C11", "status-header-malformed", ex.Idx, "X-Httpcache-Status = %q; %s", st, SummarizeExchange(o, ex))
			continue
		}
		status := st[0]
		legacy := ex.Resp.Header.Values("X-From-Cache")
		fromCacheFlag := len(legacy) == 1 && legacy[0] == "1"
		src, fromStore := o.FromStore(ex)
		fg := o.FgCalls(ex)
		v304 := o.Validated304(ex)
		switch {
		case fromStore && len(fg) == 0:
			r.NonTrivial = true
			vs := Versions(o, src, ex.StartSeq)
			allFresh, allStale := true, true
			for _, v := range vs {
				if f, _, _, _ := v.FreshByMargin(ex.StartNs, 0); !f {
					allFresh = false
				}
				if s, u, _, _, _ := v.StaleForSure(ex.StartNs); !s || u {
					allStale = false
				}
			}
			path := "hit"
			if allStale {
				path = "stale-by-permission"
			}
			r.Label("path:" + path + ":" + status)
			if status != "HIT" && status != "STALE" {
				r.Fail("C11", "wrong-status:from-store", ex.Idx, "served from the store without origin contact but marked %s; %s", status, SummarizeExchange(o, ex))
			} else if allFresh && status == "STALE" {
				r.Fail("C11", "fresh-marked-stale", ex.Idx, "fresh stored response marked STALE; %s", SummarizeExchange(o, ex))
			}
			if !fromCacheFlag {
				r.Fail("C11", "x-from-cache-missing", ex.Idx, "X-From-Cache = %q on a response served from the store; %s", legacy, SummarizeExchange(o, ex))
			}
			if d := ageCheck(vs, ex); d != "" {
				r.Fail("C11", "wrong-age:"+status, ex.Idx, "%s; %s", d, SummarizeExchange(o, ex))
			}
		case fromStore && v304 != nil:
			r.NonTrivial = true
			r.Label("path:revalidated:" + status)
			if status != "REVALIDATED" {
				r.Fail("C11", "wrong-status:revalidated", ex.Idx, "served from the store after a 304 but marked %s; %s", status, SummarizeExchange(o, ex))
			}
			if !fromCacheFlag {
				r.Fail("C11", "x-from-cache-missing", ex.Idx, "X-From-Cache = %q on a revalidated response; %s", legacy, SummarizeExchange(o, ex))
			}
		case fromStore:
			// from the store after a failed / non-304 validation
			failed := false
			for _, c := range fg {
				if c.Kind == "err" || (c.Kind == "resp" && c.Status >= 500) {
					failed = true
				}
			}
			if !failed {
				r.Label("path:store-after-full-reply")
				continue // returning a replaced entry is C02/C08's business
			}
			r.NonTrivial = true
			r.Label("path:stale-if-error:" + status)
			if status != "STALE" {
				r.Fail("C11", "wrong-status:stale-if-error", ex.Idx, "stored response served after a failed validation but marked %s; %s", status, SummarizeExchange(o, ex))
			}
			if !fromCacheFlag {
				r.Fail("C11", "x-from-cache-missing", ex.Idx, "X-From-Cache = %q on a stale-if-error response; %s", legacy, SummarizeExchange(o, ex))
			}
			if d := ageCheck(Versions(o, src, ex.StartSeq), ex); d != "" {
				r.Fail("C11", "wrong-age:stale-if-error", ex.Idx, "%s; %s", d, SummarizeExchange(o, ex))
			}
		default:
			// the origin's reply from this exchange, or the synthesised 504
			own := false
			for _, c := range fg {
				if c.Kind == "resp" && (world.TokOf(ex.Resp.Header) == c.Serial || ex.Resp.Header.Get("X-Val") == itoa(c.Serial)) {
					own = true
				}
			}
			synth := len(fg) == 0 && ex.Resp.Status == http.StatusGatewayTimeout && world.TokOf(ex.Resp.Header) < 0
			if !own && !synth {
				r.Label("path:unclassified")
				continue
			}
			if synth {
				r.Label("path:504:" + status)
			} else {
				r.Label("path:origin:" + status)
			}
			if status != "MISS" && status != "BYPASS" {
				r.Fail("C11", "wrong-status:origin", ex.Idx, "the origin's reply of this exchange (or the synthesised 504) is marked %s; %s", status, SummarizeExchange(o, ex))
			}
			if fromCacheFlag {
				r.Fail("C11", "x-from-cache-on-origin-reply", ex.Idx, "X-From-Cache: 1 on a response that is not from the store; %s", SummarizeExchange(o, ex))
			}
		}
	}
	_ = model.Huge
	return r
}

func itoa(n int) string {
	return fmtInt(int64(n))
}
