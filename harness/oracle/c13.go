package oracle

import (
	"strconv"

	"verif/harness/model"
	"verif/harness/world"
)

var sieStatus = map[int]bool{500: true, 502: true, 503: true, 504: true}

// C13: stale-if-error serves the stored response on origin failure, within its window.
func C13(o *world.Obs) *Result {
	r := NewResult()
	for _, ex := range o.Exchanges {
		if !IsPlainGET(ex.Req) || HasClientConditional(ex.Req) {
			continue
		}
		fg := o.FgCalls(ex)
		if len(fg) != 1 {
			continue
		}
		c := fg[0]
		ctxFailed := c.Kind == "hang" && c.CtxErr != ""
		failed := c.Kind == "err" || ctxFailed || (c.Kind == "resp" && c.Status >= 400)
		if !failed {
			continue
		}
		cand := candidateByValidator(o, ex)
		if cand == nil {
			continue // no identifiable stored response was being validated
		}
		reqCC := model.ParseCC(ReqHeader(ex.Req))
		vs := Versions(o, cand, ex.StartSeq)
		eligible := c.Kind == "err" || ctxFailed || sieStatus[c.Status]
		// window analysis per version
		mustServe, mustNot := true, true
		unspecWhy := ""
		for _, v := range vs {
			cc := model.ParseCC(v.Header)
			stale, u, _, _, _ := v.StaleForSure(ex.StartNs)
			if u {
				mustServe, mustNot = false, false
				unspecWhy = "lifetime"
				break
			}
			if !stale {
				// not (surely) stale: validation was triggered by something else; not judged
				mustServe, mustNot = false, false
				unspecWhy = "not-surely-stale"
				break
			}
			_, ncPresent, ncQualified := cc.NoCache()
			blocked := cc.Has["must-revalidate"] || (ncPresent && !ncQualified) || reqCC.Has["no-cache"]
			if ncPresent && ncQualified {
				// whether a qualified no-cache blocks stale-if-error is not judged; if the stored
				// response is served, the named fields must be withheld (checked below)
				mustServe, mustNot = false, false
				unspecWhy = "qualified-no-cache"
				if src, fromStore := o.FromStore(ex); fromStore && src.Serial == cand.Serial && ex.Resp != nil {
					fields, _, _ := cc.NoCache()
					for _, f := range fields {
						if vals := ex.Resp.Header.Values(f); len(vals) > 0 {
							r.Fail("C13", "served-with-qualified-fields", ex.Idx, "stale-if-error response replays field %s named by no-cache (%q) without validation; %s", f, vals, SummarizeExchange(o, ex))
						}
					}
				}
				break
			}
			if _, ok, _ := reqCC.Delta("max-age"); ok {
				mustServe = false // request max-age together with stale-if-error: not judged in the positive direction
			}
			// applicable windows
			var windows []model.Sec
			invalidArg := false
			for _, src := range []model.CC{cc, reqCC} {
				if n, ok, valid := src.Delta("stale-if-error"); ok {
					if valid {
						windows = append(windows, n)
					} else {
						invalidArg = true
					}
				}
			}
			if invalidArg {
				mustServe, mustNot = false, false
				unspecWhy = "invalid-sie-argument"
				break
			}
			// the window is judged when the stored response is handed out, i.e. at the end of
			// the exchange (a validation that hangs until the caller's deadline takes time, and
			// the Age the response carries is the age at that instant): a response that was
			// inside its window when the request arrived but has left it by the time the
			// validation finally fails is outside
			ageLo, _, exact := v.AgeBounds(ex.EndNs)
			_, ageHi, _ := v.AgeBounds(ex.EndNs)
			lifeLo, lifeHi, _, _ := v.Lifetime()
			if !model.HeuristicAllowed(v.Status, cc, true) {
				if _, _, kind, _ := v.Lifetime(); kind == "heuristic" {
					lifeHi = 0
				}
			}
			if !model.HeuristicAllowed(v.Status, cc, false) {
				if _, _, kind, _ := v.Lifetime(); kind == "heuristic" {
					lifeLo = 0
				}
			}
			stalenessLo := ageLo - lifeHi
			stalenessHi := ageHi - lifeLo
			if !exact || ageHi >= model.Huge {
				mustServe = false
			}
			inSome, outAll := false, true
			for _, n := range windows {
				if stalenessHi < n {
					inSome = true
				}
				if !(stalenessLo > n) {
					outAll = false
				}
			}
			if !(eligible && !blocked && inSome) {
				mustServe = false
			}
			if !(!eligible || blocked || len(windows) == 0 || outAll) {
				mustNot = false
			}
		}
		r.NonTrivial = r.NonTrivial || len(vs) > 0 && (hasSIE(vs, reqCC) || hasSIEReply(c))
		src, fromStore := o.FromStore(ex)
		servedStale := fromStore && src != nil && src.Serial == cand.Serial && ex.Resp != nil
		failKind := "err"
		if ctxFailed {
			failKind = "deadline"
		}
		if c.Kind == "resp" {
			failKind = strconv.Itoa(c.Status)
		}
		switch {
		case mustServe:
			r.Label("must-serve:" + failKind)
			if ex.Panic != "" {
				continue
			}
			if !servedStale {
				r.Fail("C13", "not-served-in-window", ex.Idx, "validation of stale s%d failed (%s) inside its stale-if-error window, but the stored response was not returned; %s",
					cand.Serial, failKind, SummarizeExchange(o, ex))
				continue
			}
			if got := ex.Resp.Header.Values("X-Httpcache-Status"); len(got) != 1 || got[0] != "STALE" {
				r.Fail("C13", "not-marked-stale", ex.Idx, "stale-if-error response carries X-Httpcache-Status %q; %s", got, SummarizeExchange(o, ex))
			}
			if d := ageCheck(vs, ex); d != "" {
				r.Fail("C13", "wrong-age", ex.Idx, "stale-if-error response: %s; %s", d, SummarizeExchange(o, ex))
			}
		case mustNot:
			r.Label("must-not-serve:" + failKind)
			if servedStale {
				why := "outside-window"
				switch {
				case !eligible:
					why = "ineligible-status"
				case !hasSIE(vs, reqCC):
					why = "no-directive"
				}
				for _, v := range vs {
					cc := model.ParseCC(v.Header)
					if cc.Has["must-revalidate"] {
						why = "must-revalidate"
					}
					if _, p, q := cc.NoCache(); p && !q {
						why = "no-cache"
					}
				}
				if reqCC.Has["no-cache"] {
					why = "request-no-cache"
				}
				r.Fail("C13", "served-outside:"+why, ex.Idx, "validation of s%d failed (%s) and the stored response was returned although stale-if-error does not apply (%s); %s",
					cand.Serial, failKind, why, SummarizeExchange(o, ex))
			}
		default:
			r.Unspec("c13-" + unspecWhy)
		}
	}
	return r
}

func hasSIE(vs []model.Version, reqCC model.CC) bool {
	if reqCC.Has["stale-if-error"] {
		return true
	}
	for _, v := range vs {
		if model.ParseCC(v.Header).Has["stale-if-error"] {
			return true
		}
	}
	return false
}

func hasSIEReply(c *world.Call) bool {
	return c.Kind == "resp" && model.ParseCC(c.RespHdr).Has["stale-if-error"]
}

// ageCheck verifies the Age field of a response served from the store: a single non-negative
// integer within one second of the model's current age under some admissible version.
func ageCheck(vs []model.Version, ex *world.Exchange) string {
	a := ex.Resp.Header.Values("Age")
	if len(a) != 1 {
		return "Age field lines: " + strconv.Quote(joinVals(a))
	}
	n, err := strconv.ParseInt(a[0], 10, 64)
	if err != nil || n < 0 {
		return "Age is not a non-negative integer: " + strconv.Quote(a[0])
	}
	desc := ""
	for _, v := range vs {
		// the Age may be computed at any instant between the start and the end of the exchange
		lo, _, exact := v.AgeBounds(ex.StartNs)
		_, hi, _ := v.AgeBounds(ex.EndNs)
		if !exact {
			return "" // invalid / list-valued upstream Age: not judged
		}
		if hi >= model.Huge {
			if n >= model.Huge-1 {
				return ""
			}
		}
		if n >= lo-1 && n <= hi+1 {
			return ""
		}
		desc += " [" + v.Why + ": " + strconv.FormatInt(lo, 10) + ".." + strconv.FormatInt(hi, 10) + "]"
	}
	return "Age " + a[0] + " but current age is" + desc
}
