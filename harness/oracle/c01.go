package oracle

import (
	"net/http"

	"verif/harness/model"
	"verif/harness/world"
)

// C01: a stale stored response is never served without explicit permission.
//
// Judged: every GET exchange whose response is a copy of a reply obtained earlier and during
// which no foreground origin call completed. VIOLATION iff the reply is stale for sure under
// every admissible metadata version and none of the listed permissions holds.
func C01(o *world.Obs) *Result {
	r := NewResult()
	for _, ex := range o.Exchanges {
		if ex.Resp == nil || ex.Req.Method != http.MethodGet {
			continue
		}
		if _, ok := seenStored(o, ex); ok {
			r.NonTrivial = true // a reuse decision was taken for a URI with a stored entry
		}
		src, fromStore := o.FromStore(ex)
		if !fromStore {
			continue
		}
		if len(o.FgCalls(ex)) > 0 {
			r.Label("from-store-after-contact")
			continue // validated (or at least contacted): C02/C08's business
		}
		r.Label("reuse-without-contact")
		now := ex.StartNs
		vs := Versions(o, src, ex.StartSeq)
		if len(vs) > 1 {
			r.Label("freshened-by-304")
		}
		reqCC := model.ParseCC(ReqHeader(ex.Req))
		allStale := true
		unspec := false
		var minStaleness model.Sec = -1
		var witness model.Version
		var wAge, wLife model.Sec
		var wKind string
		for _, v := range vs {
			stale, u, ageLo, lifeHi, kind := v.StaleForSure(now)
			if u {
				unspec = true
				allStale = false
				break
			}
			if !stale {
				allStale = false
				break
			}
			st := ageLo - lifeHi
			if minStaleness < 0 || st < minStaleness {
				minStaleness = st
				witness, wAge, wLife, wKind = v, ageLo, lifeHi, kind
			}
		}
		if unspec {
			r.Unspec("c01-lifetime-or-saturation")
			continue
		}
		// classification of the original version
		{
			ageLo, _, _ := vs[0].AgeBounds(now)
			_, lifeHi, kind, _ := vs[0].Lifetime()
			r.Label("life-from-" + kind)
			if ageLo == lifeHi {
				r.Label("age==life")
			}
			if ageLo >= model.Huge || lifeHi >= model.Huge {
				r.Label("overflow-operand")
			}
			if _, k := vs[0].AgeField(); k != "absent" {
				r.Label("age-field-" + k)
			}
			if src.EndNs > src.StartNs {
				r.Label("latency>0")
			}
		}
		if !allStale {
			r.Label("served-fresh")
			continue
		}
		// permissions
		if reqCC.Has["only-if-cached"] {
			r.Label("stale-by-only-if-cached")
			continue
		}
		if reqCC.Has["max-stale"] {
			arg, hasArg := reqCC.Arg["max-stale"]
			if !hasArg || arg == "" {
				r.Label("stale-by-max-stale-bare")
				continue
			}
			if n, ok := model.ParseDelta(arg); ok {
				if minStaleness <= n {
					r.Label("stale-by-max-stale")
					continue
				}
			} else {
				// An argument that is no delta-seconds value: the directive is either ignored or
				// read leniently; no reading grants more than the largest number in its text
				// (a valueless max-stale is the only form that accepts any staleness).
				if minStaleness <= largestNumberIn(arg) {
					r.Unspec("c01-invalid-max-stale")
					continue
				}
				r.Label("stale-beyond-invalid-max-stale")
			}
		}
		// the stored reply's own stale-while-revalidate window (any admissible version)
		swrOK := false
		for _, v := range vs {
			cc := model.ParseCC(v.Header)
			if n, ok, valid := cc.Delta("stale-while-revalidate"); ok {
				if !valid {
					swrOK = true // invalid argument: not judged
					break
				}
				_, _, ageLo, lifeHi, _ := v.StaleForSure(now)
				if ageLo-lifeHi <= n {
					swrOK = true
					break
				}
			}
		}
		if swrOK {
			r.Label("stale-by-swr")
			continue
		}
		r.Fail("C01", "stale-served:"+wKind, ex.Idx,
			"served stored reply s%d stale without permission: age>=%ds lifetime<=%ds (%s, version %q) at t=%s; request Cache-Control=%q; %s",
			src.Serial, wAge, wLife, wKind, witness.Why, secs(now), ReqHeader(ex.Req).Values("Cache-Control"), SummarizeExchange(o, ex))
	}
	return r
}

// seenStored reports whether, before ex started, a Set for a response key of ex's URI had
// succeeded (a reuse decision is then non-trivial). It is deliberately loose: any successful
// Set whose value carries a token of a reply for the same URL text counts.
func seenStored(o *world.Obs, ex *world.Exchange) (int, bool) {
	for _, c := range o.Calls {
		if c.EndSeq < ex.StartSeq && c.URL == ex.Req.URL && c.Kind == "resp" && c.Method == http.MethodGet {
			return c.Serial, true
		}
	}
	return 0, false
}

// largestNumberIn returns the largest run of decimal digits in s as seconds (saturating; 0 if none).
func largestNumberIn(s string) model.Sec {
	var best model.Sec
	for i := 0; i < len(s); {
		if s[i] < '0' || s[i] > '9' {
			i++
			continue
		}
		j := i
		for j < len(s) && s[j] >= '0' && s[j] <= '9' {
			j++
		}
		if n, ok := model.ParseDelta(s[i:j]); ok && n > best {
			best = n
		}
		i = j
	}
	return best
}
