package oracle

import (
	"bytes"
	"fmt"
	"net/http"
	"sort"
	"strconv"

	"verif/harness/model"
	"verif/harness/world"
)

var c05Allowed = map[string]bool{"Age": true, "X-Httpcache-Status": true, "X-From-Cache": true, "Content-Length": true, "Trailer": true}

// C05: cached responses are byte-faithful copies of the origin response.
func C05(o *world.Obs) *Result {
	r := NewResult()
	// (iii) nothing hop-by-hop reaches the store. Judged on the header fields as the upstream
	// RoundTripper delivered them (a real http.Transport drops the whole Connection field when it
	// contains "close", and with it the nominations the cache could have seen).
	for _, c := range o.Calls {
		if c.Kind != "resp" {
			continue
		}
		hop := model.HopByHop(c.RespHdr)
		for k := range hop {
			if k == "Connection" {
				continue // the serialiser writes its own framing line
			}
			for _, v := range append(c.RespHdr.Values(k), c.Trailer.Values(k)...) {
				if !bytes.Contains([]byte(v), []byte("hop"+strconv.Itoa(c.Serial)+";")) {
					continue
				}
				line := []byte("\r\n" + k + ": " + v + "\r\n")
				for _, op := range o.Ops {
					if op.Op == "set" && bytes.Contains(op.Val, line) {
						r.Fail("C05", "hop-by-hop-stored:"+k, c.Ex, "a Set for key %q contains the hop-by-hop field %s: %q of reply s%d", op.Key, k, v, c.Serial)
						break
					}
				}
			}
		}
	}
	for _, ex := range o.Exchanges {
		if ex.Resp == nil {
			continue
		}
		src, fromStore := o.FromStore(ex)
		if !fromStore {
			// (i) the origin's own reply: exact body, or the read error surfaces
			for _, c := range o.FgCalls(ex) {
				if c.Kind != "resp" || world.TokOf(ex.Resp.Header) != c.Serial {
					continue
				}
				if ex.Req.Method == http.MethodHead {
					continue
				}
				r.Label("miss:" + shapeOf(c))
				if c.BodyFails() {
					if ex.Resp.BodyErr == "" {
						r.Fail("C05", "body-error-swallowed", ex.Idx, "origin body fails after %d bytes but the client read %d bytes without error; %s", c.FailAt-1, len(ex.Resp.Body), SummarizeExchange(o, ex))
					}
					continue
				}
				if !bytes.Equal(ex.Resp.Body, c.Body) || ex.Resp.BodyErr != "" {
					r.Fail("C05", "miss-body-differs:"+shapeOf(c), ex.Idx, "forwarded body differs from the origin's (%d vs %d bytes, first difference at %d, read error %q); %s",
						len(ex.Resp.Body), len(c.Body), firstDiff(ex.Resp.Body, c.Body), ex.Resp.BodyErr, SummarizeExchange(o, ex))
				}
				if ex.Resp.Status != c.Status {
					r.Fail("C05", "miss-status-differs", ex.Idx, "status %d forwarded as %d; %s", c.Status, ex.Resp.Status, SummarizeExchange(o, ex))
				}
			}
			continue
		}
		// (ii) from the store
		r.NonTrivial = true
		r.Label("from-store:" + shapeOf(src) + ":" + sizeClass(len(src.Body)) + ":" + o.Sc.Backend)
		if ex.Resp.Status != src.Status {
			r.Fail("C05", "status-differs", ex.Idx, "stored reply s%d had status %d, served as %d; %s", src.Serial, src.Status, ex.Resp.Status, SummarizeExchange(o, ex))
		}
		if !bytes.Equal(ex.Resp.Body, src.Body) || ex.Resp.BodyErr != "" {
			r.Fail("C05", "body-differs:"+shapeOf(src), ex.Idx, "body served from the store differs from the origin's (%d vs %d bytes, first difference at %d, read error %q, shape %s); %s",
				len(ex.Resp.Body), len(src.Body), firstDiff(ex.Resp.Body, src.Body), ex.Resp.BodyErr, shapeOf(src), SummarizeExchange(o, ex))
		}
		if cl := ex.Resp.Header.Values("Content-Length"); len(cl) > 0 {
			if len(cl) != 1 || cl[0] != strconv.Itoa(len(ex.Resp.Body)) {
				r.Fail("C05", "content-length-inconsistent", ex.Idx, "Content-Length %q on a body of %d bytes; %s", cl, len(ex.Resp.Body), SummarizeExchange(o, ex))
			}
		}
		// trailer fields are part of the stored response as well
		if len(src.Trailer) > 0 && !ex.Req.HoldBody && ex.Req.Method != "HEAD" {
			r.Label("from-store-with-trailer")
			want := src.Trailer.Clone()
			for k := range model.HopByHop(src.RespHdr) {
				if len(want.Values(k)) > 0 {
					r.Label("hop-by-hop-trailer")
					want.Del(k) // named by Connection: hop-by-hop wherever it was sent
				}
			}
			if d := world.DiffHeader(want, ex.Resp.Trailer); d != "" {
				r.Fail("C05", "trailer-differs", ex.Idx, "trailer fields of stored reply s%d: %s; %s", src.Serial, d, SummarizeExchange(o, ex))
			}
		}
		// expected end-to-end fields: under some admissible version
		vs := Versions(o, src, ex.StartSeq)
		if v304 := o.Validated304(ex); v304 != nil {
			last := vs[len(vs)-1]
			vs = append(vs, model.Version{Status: src.Status, Header: model.Merge304(LatestVersion(vs).Header, v304.RespHdr, v304.EndNs), Why: "this exchange's 304"})
			_ = last
		}
		problem := ""
		validated := o.Validated304(ex) != nil
		for _, v := range vs {
			want := v.Header
			if fields, present, qualified := model.ParseCC(v.Header).NoCache(); present && qualified && !validated {
				// unvalidated reuse: the named fields may (C02: must) be withheld
				want = want.Clone()
				got := ex.Resp.Header.Clone()
				for _, f := range fields {
					want.Del(f)
					got.Del(f)
				}
				if p := compareFields(want, got); p == "" {
					problem = ""
					break
				} else {
					problem = p + " (version " + v.Why + ")" // the latest version's report is the most telling
				}
				continue
			}
			p := compareFields(want, ex.Resp.Header)
			if p == "" {
				problem = ""
				break
			}
			problem = p + " (version " + v.Why + ")" // the latest version's report is the most telling
		}
		if problem != "" {
			r.Fail("C05", "header-differs", ex.Idx, "header fields served from the store differ from the origin's: %s; %s", problem, SummarizeExchange(o, ex))
		}
		// hop-by-hop fields are never replayed
		hop := model.HopByHop(src.RespHdr)
		keys := make([]string, 0, len(ex.Resp.Header))
		for k := range ex.Resp.Header {
			keys = append(keys, k)
		}
		sort.Strings(keys)
		for _, k := range keys {
			if hop[k] {
				r.Fail("C05", "hop-by-hop-replayed:"+k, ex.Idx, "hop-by-hop field %s: %q replayed from the store; %s", k, ex.Resp.Header.Values(k), SummarizeExchange(o, ex))
				break
			}
		}
	}
	return r
}

func hopFields(h http.Header) []string {
	var out []string
	for k := range model.HopByHop(h) {
		if len(h.Values(k)) > 0 {
			out = append(out, k)
		}
	}
	sort.Strings(out)
	return out
}

// compareFields checks that got carries exactly want's end-to-end fields (same values, same
// order per field) plus only the allowed additions.
func compareFields(want, got http.Header) string {
	hop := model.HopByHop(want)
	keys := map[string]bool{}
	for k := range want {
		keys[k] = true
	}
	for k := range got {
		keys[k] = true
	}
	ks := make([]string, 0, len(keys))
	for k := range keys {
		ks = append(ks, k)
	}
	sort.Strings(ks)
	for _, k := range ks {
		if hop[k] || c05Allowed[k] {
			continue
		}
		w, g := want.Values(k), got.Values(k)
		if k == "Date" {
			if _, ok := model.HTTPDate(want.Get("Date")); !ok || len(w) != 1 {
				continue // the cache supplies a Date when the origin sent none / an invalid one
			}
		}
		if len(w) == 0 {
			return fmt.Sprintf("unexpected field %s: %q", k, g)
		}
		if d := diffValues(w, g); d != "" {
			return fmt.Sprintf("%s: want %q %s", k, w, d)
		}
	}
	return ""
}

func firstDiff(a, b []byte) int {
	n := len(a)
	if len(b) < n {
		n = len(b)
	}
	for i := 0; i < n; i++ {
		if a[i] != b[i] {
			return i
		}
	}
	if len(a) != len(b) {
		return n
	}
	return -1
}

func shapeOf(c *world.Call) string {
	if c.Reply == nil || c.Reply.Shape == "" {
		return "cl"
	}
	return c.Reply.Shape
}

func sizeClass(n int) string {
	switch {
	case n == 0:
		return "0"
	case n < 4096:
		return "<4K"
	case n <= 4097:
		return "~4K"
	case n < 65535:
		return "<64K"
	case n <= 65537:
		return "~64K"
	}
	return ">64K"
}

// C15Transport: after store writes were cut short (file-size limit) the transport never
// serves a truncated or spliced stored response, and never panics.
func C15Transport(o *world.Obs) *Result {
	r := NewResult()
	fired := 0
	for _, op := range o.Ops {
		if op.Fault == "rlimit" {
			fired++
			if op.Err != "" {
				r.Label("write-cut")
			} else {
				r.Label("write-fit-in-limit")
			}
		}
	}
	r.NonTrivial = fired > 0
	for _, ex := range o.Exchanges {
		if ex.Panic != "" {
			r.Fail("C15", "panic-after-cut-write", ex.Idx, "panic: %s", firstLine(ex.Panic))
			continue
		}
		if ex.Resp == nil {
			continue
		}
		src, fromStore := o.FromStore(ex)
		if !fromStore {
			// own reply: must be complete
			for _, c := range o.FgCalls(ex) {
				if c.Kind == "resp" && world.TokOf(ex.Resp.Header) == c.Serial && !c.BodyFails() && !bytes.Equal(ex.Resp.Body, c.Body) {
					r.Fail("C15", "origin-reply-damaged", ex.Idx, "origin reply forwarded with %d of %d bytes; %s", len(ex.Resp.Body), len(c.Body), SummarizeExchange(o, ex))
				}
			}
			continue
		}
		r.Label("from-store-after-cut")
		if ex.Resp.Status != src.Status || !bytes.Equal(ex.Resp.Body, src.Body) || ex.Resp.BodyErr != "" {
			r.Fail("C15", "truncated-response-served", ex.Idx, "stored reply s%d served with status %d and %d of %d body bytes (first difference at %d, read error %q) after a cut write; %s",
				src.Serial, ex.Resp.Status, len(ex.Resp.Body), len(src.Body), firstDiff(ex.Resp.Body, src.Body), ex.Resp.BodyErr, SummarizeExchange(o, ex))
		}
	}
	return r
}

// C17Transport: after a file of the encrypted backend was tampered with, the next request for
// the resource is answered by the origin, never from the store.
func C17Transport(o *world.Obs) *Result {
	r := NewResult()
	tamperedBefore := map[int]bool{} // exchange index -> a tamper step precedes it directly
	exIdx := 0
	pending := false
	for _, st := range o.Sc.Steps {
		switch st.Op {
		case "corrupt":
			pending = true
		case "req":
			if pending {
				tamperedBefore[exIdx] = true
				pending = false
			}
			exIdx++
		}
	}
	for _, ex := range o.Exchanges {
		if ex.Panic != "" {
			r.Fail("C17", "panic-after-tamper", ex.Idx, "panic: %s", firstLine(ex.Panic))
			continue
		}
		if !tamperedBefore[ex.Idx] {
			continue
		}
		r.NonTrivial = true
		if src, fromStore := o.FromStore(ex); fromStore {
			r.Fail("C17", "tampered-entry-served", ex.Idx, "a file of the encrypted backend was tampered with (%v), yet stored reply s%d is served; %s", tamperOf(o), src.Serial, SummarizeExchange(o, ex))
			continue
		}
		if ex.Resp == nil {
			r.Fail("C17", "tamper-breaks-request", ex.Idx, "request failed after tampering: err=%q; %s", ex.Err, SummarizeExchange(o, ex))
			continue
		}
		for _, c := range o.FgCalls(ex) {
			if c.Kind == "resp" && world.TokOf(ex.Resp.Header) == c.Serial && !bytes.Equal(ex.Resp.Body, c.Body) {
				r.Fail("C17", "origin-reply-damaged", ex.Idx, "origin reply forwarded with %d of %d bytes; %s", len(ex.Resp.Body), len(c.Body), SummarizeExchange(o, ex))
			}
		}
		r.Label("answered-by-origin")
	}
	return r
}

func tamperOf(o *world.Obs) string {
	for _, st := range o.Sc.Steps {
		if st.Op == "corrupt" && st.Corrupt != nil {
			return fmt.Sprintf("%s file#%d arg=%d", st.Corrupt.Kind, st.Corrupt.KeySel, st.Corrupt.Arg)
		}
	}
	return ""
}
