package oracle

import (
	"bytes"
	"net/http"
	"strconv"

	"verif/harness/model"
	"verif/harness/world"
)

// C06: responses that must not be stored never reach the store.
func C06(o *world.Obs) *Result {
	r := NewResult()
	type forbidden struct {
		c      *world.Call
		reason string
	}
	var fs []forbidden
	for _, c := range o.Calls {
		if c.Kind != "resp" {
			continue
		}
		verdict, reason := model.Storability(c.Method, c.Header, c.Status, c.RespHdr, c.BodyFails() || c.Short > 0)
		switch verdict {
		case "no":
			if c.Status == http.StatusNotModified && c.Ex >= 0 {
				// a 304 answering the cache's own validation request legitimately updates the
				// store (C08); only a 304 to the client's own conditional request on a miss is
				// a response that must not be stored
				ex := o.Exchanges[c.Ex]
				if !HasClientConditional(ex.Req) {
					// ... unless storing is forbidden for this very exchange: the 304 carries
					// no-store itself, or answers a request that does
					switch {
					case model.ParseCC(c.RespHdr).Has["no-store"]:
						fs = append(fs, forbidden{c, "304-with-no-store"})
						r.NonTrivial = true
						r.Label("forbidden:304-with-no-store")
					case model.ParseCC(ReqHeader(ex.Req)).Has["no-store"]:
						fs = append(fs, forbidden{c, "304-to-no-store-request"})
						r.NonTrivial = true
						r.Label("forbidden:304-to-no-store-request")
					}
					continue
				}
				ch := ReqHeader(ex.Req)
				if c.Header.Get("If-None-Match") != ch.Get("If-None-Match") || c.Header.Get("If-Modified-Since") != ch.Get("If-Modified-Since") {
					continue // the cache substituted its own validators
				}
				if _, seen := seenStored(o, ex); seen {
					r.Unspec("c06-client-conditional-with-stored-entry")
					continue
				}
			}
			fs = append(fs, forbidden{c, reason})
			r.NonTrivial = true
			r.Label("forbidden:" + reason)
		case "maybe":
			r.Unspec("c06-" + reason)
		default:
			r.Label("storable")
		}
	}
	// (1) no Set value contains the reply's token / marker values
	for _, f := range fs {
		tok := []byte(world.BodyToken(f.c.Serial))
		hdrTok := []byte("X-Tok: " + strconv.Itoa(f.c.Serial) + "\r\n")
		valTok := []byte("X-Val: " + strconv.Itoa(f.c.Serial) + "\r\n")
		mark := []byte("mark" + strconv.Itoa(f.c.Serial) + ";")
		for _, op := range o.Ops {
			if op.Op != "set" {
				continue
			}
			if bytes.Contains(op.Val, tok) || bytes.Contains(op.Val, hdrTok) || bytes.Contains(op.Val, valTok) || bytes.Contains(op.Val, mark) {
				r.Fail("C06", "stored:"+f.reason, f.c.Ex, "reply s%d (status %d, %s) must not be stored, but a Set for key %q carries its token; %s",
					f.c.Serial, f.c.Status, f.reason, op.Key, SummarizeExchange(o, o.Exchanges[max(f.c.Ex, 0)]))
				break
			}
		}
	}
	// (1b) nothing at all is written for it: an exchange whose only origin reply must not be
	// stored performs no successful Set on the caller's goroutine (not even of an index that
	// would describe the reply: its Vary value, the request's nominated fields, its Date)
	for _, f := range fs {
		if f.c.Status == http.StatusNotModified || !f.c.Fg || f.c.Ex < 0 {
			continue
		}
		ex := o.Exchanges[f.c.Ex]
		if len(o.FgCalls(ex)) != 1 {
			continue
		}
		for _, op := range o.Ops {
			if op.Op == "set" && op.Err == "" && op.Ex == ex.Idx && op.Gid == ex.Gid {
				r.Fail("C06", "stored-index:"+f.reason, ex.Idx, "reply s%d (status %d, %s) must not be stored, yet the exchange writes key %q (%d bytes); %s",
					f.c.Serial, f.c.Status, f.reason, op.Key, len(op.Val), SummarizeExchange(o, ex))
				break
			}
		}
	}
	// (2) no later exchange returns it
	for _, ex := range o.Exchanges {
		if ex.Resp == nil {
			continue
		}
		if src, fromStore := o.FromStore(ex); fromStore {
			for _, f := range fs {
				if f.c.Serial == src.Serial {
					r.Fail("C06", "replayed:"+f.reason, ex.Idx, "reply s%d (status %d, %s) must not be stored, but it is served again; %s",
						src.Serial, src.Status, f.reason, SummarizeExchange(o, ex))
				}
			}
		}
		// X-Val identifies 304 replies
		if v := ex.Resp.Header.Get("X-Val"); v != "" && ex.Resp.Status == http.StatusNotModified {
			n, _ := strconv.Atoi(v)
			own := false
			for _, c := range o.FgCalls(ex) {
				if c.Serial == n {
					own = true
				}
			}
			if !own {
				r.Fail("C06", "replayed:304", ex.Idx, "a 304 (s%d) obtained in an earlier exchange is served again; %s", n, SummarizeExchange(o, ex))
			}
		}
		// (3) an unconditional GET is never answered with a 304
		if ex.Req.Method == http.MethodGet && !HasClientConditional(ex.Req) && ex.Resp.Status == http.StatusNotModified {
			r.Fail("C06", "unconditional-get-304", ex.Idx, "GET without conditional fields answered with 304; %s", SummarizeExchange(o, ex))
		}
	}
	return r
}
