package oracle

import (
	"verif/harness/model"
	"verif/harness/world"
)

const defaultSWR = int64(5e9)

// C20: stale-while-revalidate answers at once and revalidates once, within the timeout.
func C20(o *world.Obs) *Result {
	r := NewResult()
	T := defaultSWR
	if o.Sc.SWRSet && o.Sc.SWRNs > 0 {
		T = o.Sc.SWRNs
	}
	swrServes := 0
	for _, ex := range o.Exchanges {
		if !IsPlainGET(ex.Req) || ex.Resp == nil {
			continue
		}
		src, fromStore := o.FromStore(ex)
		if !fromStore || len(o.FgCalls(ex)) > 0 {
			continue
		}
		reqCC := model.ParseCC(ReqHeader(ex.Req))
		if reqCC.Has["max-stale"] || reqCC.Has["only-if-cached"] {
			continue // staleness permitted by the request, not by stale-while-revalidate
		}
		vs := Versions(o, src, ex.StartSeq)
		allStale, anySWR := true, false
		for _, v := range vs {
			if s, u, _, _, _ := v.StaleForSure(ex.StartNs); !s || u {
				allStale = false
			}
			if model.ParseCC(v.Header).Has["stale-while-revalidate"] {
				anySWR = true
			}
		}
		bg := o.BgCalls(ex)
		if !(allStale && anySWR) && len(bg) == 0 {
			continue
		}
		if !allStale && len(bg) > 0 && !anySWR {
			continue
		}
		// a stale serve under stale-while-revalidate
		swrServes++
		r.NonTrivial = true
		if ex.EndNs != ex.StartNs {
			r.Fail("C20", "foreground-waited", ex.Idx, "stale-while-revalidate serve took %s of virtual time; %s", secs(ex.EndNs-ex.StartNs), SummarizeExchange(o, ex))
		}
		if len(bg) != 1 {
			r.Fail("C20", "bg-call-count", ex.Idx, "%d background revalidation requests for one stale serve (want exactly 1); %s", len(bg), SummarizeExchange(o, ex))
			continue
		}
		c := bg[0]
		lat := "none"
		if c.Reply != nil {
			switch {
			case c.Reply.Kind == "hang":
				lat = "hang"
			case c.Reply.LatencyNs == 0:
				lat = "0"
			case c.Reply.LatencyNs < T:
				lat = "<T"
			case c.Reply.LatencyNs == T:
				lat = "=T"
			default:
				lat = ">T"
			}
		}
		r.Label("bg-latency:" + lat)
		if c.StartSeq < ex.StartSeq {
			r.Fail("C20", "bg-before-serve", ex.Idx, "background call started before the exchange; %s", SummarizeExchange(o, ex))
		}
		if d := upstreamRequestOK(ex, c); d != "" {
			r.Fail("C20", "bg-request-altered", ex.Idx, "background request differs from the client's: %s; %s", d, SummarizeExchange(o, ex))
		}
		if d := validatorsOK(o, ex, src, c); d != "" {
			r.Fail("C20", "bg-validators", ex.Idx, "background revalidation of s%d: %s; %s", src.Serial, d, SummarizeExchange(o, ex))
		}
		// cancellation: the background request belongs to the cache, not to the caller - it is
		// cancelled by the revalidation timeout and by nothing else (a caller whose context ends
		// once it has its response, e.g. an http.Client with a Timeout, would otherwise never
		// get its entries refreshed)
		deadline := c.StartNs + T
		// Judged on behaviour - when the request's context actually ends - not on whether the
		// context carries a deadline: a timer that cancels the context at start + T is as good
		// as context.WithTimeout.
		if c.HasDeadline && c.DeadlineNs > deadline {
			// (a deadline that lies beyond start + T says outright that the request may run longer)
			r.Fail("C20", "bg-deadline-late", ex.Idx, "background request deadline at %s, later than start+timeout %s; %s", secs(c.DeadlineNs), secs(deadline), SummarizeExchange(o, ex))
		}
		if c.StallAt > 0 && c.Completed && c.Kind == "resp" && c.EndNs < deadline {
			// the reply's header arrived in time and its body stalls: reading it is part of the
			// background request, which ends at the timeout
			r.Label("bg-body-stalls")
			switch un := c.BodyUnblockedNs.Load(); {
			case un < 0 && !c.BodyClosed.Load():
				r.Fail("C20", "bg-body-never-cancelled", ex.Idx, "the body of the background reply s%d stalls and was neither cancelled nor closed: the background request outlives its timeout; %s", c.Serial, SummarizeExchange(o, ex))
			case un > deadline:
				r.Fail("C20", "bg-body-cancelled-late", ex.Idx, "the stalled body of the background reply s%d was released at %s, after start+timeout %s; %s", c.Serial, secs(un), secs(deadline), SummarizeExchange(o, ex))
			}
		}
		if c.Reply != nil && c.Reply.Body.PauseAt > 0 && c.Status == 200 {
			// a full, storable reply whose header arrived in time and whose body is still
			// arriving: reading it is part of the background request, which has until
			// start + timeout - a cancellation before that cuts the revalidation short
			r.Label("bg-body-streams")
			if cut := c.BodyCutNs.Load(); cut >= 0 && cut < deadline {
				r.Fail("C20", "bg-body-cut-early", ex.Idx, "the body of the background reply s%d was still arriving when its context was cancelled at %s, before start+timeout %s; %s", c.Serial, secs(cut), secs(deadline), SummarizeExchange(o, ex))
			}
		}
		slow := c.Reply != nil && (c.Reply.Kind == "hang" || c.Reply.LatencyNs > T)
		if slow {
			r.Label("bg-cancelled")
			switch {
			case c.CtxDoneNs < 0:
				r.Fail("C20", "bg-not-cancelled", ex.Idx, "slow background request was never cancelled; %s", SummarizeExchange(o, ex))
			case c.CtxDoneNs > deadline:
				r.Fail("C20", "bg-cancelled-late", ex.Idx, "background request cancelled at %s, after start+timeout %s; %s", secs(c.CtxDoneNs), secs(deadline), SummarizeExchange(o, ex))
			case c.CtxDoneNs != deadline:
				r.Fail("C20", "bg-cancelled-early", ex.Idx, "background request cancelled at %s, want exactly %s; %s", secs(c.CtxDoneNs), secs(deadline), SummarizeExchange(o, ex))
			}
		} else if c.CtxDoneNs >= 0 && c.CtxDoneNs < deadline {
			r.Fail("C20", "bg-cancelled-by-caller", ex.Idx, "background request cancelled at %s (%s), before its timeout at %s; %s", secs(c.CtxDoneNs), c.CtxErr, secs(deadline), SummarizeExchange(o, ex))
		}
	}
	if swrServes > 0 && o.Leak != "" {
		r.Fail("C20", "goroutine-leak", -1, "bubble did not quiesce after the background work: %s", o.Leak)
	}
	return r
}
