package oracle

import (
	"bytes"
	"net/http"
	"strconv"
	"strings"

	"verif/harness/model"
	"verif/harness/world"
)

// C09: fresh matching responses are served from the store (positive, least permissive).
func C09(o *world.Obs) *Result {
	r := NewResult()
	sh := BuildShadow(o)
	if sh.Disabled != "" {
		r.Label("shadow-disabled")
		return r
	}
	for _, ob := range sh.Obligations {
		r.NonTrivial = true
		ex := ob.Ex
		_, _, kind, _ := ob.V.Lifetime()
		r.Label("obligation:" + ob.Kind)
		r.Label("lifetime:" + kind)
		r.Label("backend:" + o.Sc.Backend)
		r.Label("status:" + strconv.Itoa(ob.Entry.Reply.Status))
		if ex.Req.URL != ob.Entry.URL {
			r.Label("other-uri-spelling")
		}
		if len(ob.Entry.Fields) > 0 {
			r.Label("with-vary")
		}
		if lo, _, _, _ := ob.V.Lifetime(); lo >= model.Huge {
			r.Label("huge-lifetime")
		}
		for _, st := range o.Sc.Steps[:ex.Step] {
			if st.Op == "reopen" {
				r.Label("after-reopen")
				break
			}
		}
		if ex.Panic != "" {
			continue // C10's business
		}
		calls := o.CallsOf(ex.Idx)
		switch {
		case ex.Resp == nil:
			r.Fail("C09", "no-response", ex.Idx, "fresh stored reply s%d not served (err=%q); %s", ob.Entry.Reply.Serial, ex.Err, SummarizeExchange(o, ex))
		case len(calls) > 0:
			r.Fail("C09", "origin-contacted:"+ob.Kind+":"+kind, ex.Idx, "origin contacted although reply s%d (stored at seq %d, %s) is fresh by more than 1s (version %q); %s",
				ob.Entry.Reply.Serial, ob.Entry.StoredSeq, kind, ob.V.Why, SummarizeExchange(o, ex))
		case world.TokOf(ex.Resp.Header) != ob.Entry.Reply.Serial:
			r.Fail("C09", "wrong-entry", ex.Idx, "expected stored reply s%d, got tok=%q; %s", ob.Entry.Reply.Serial, ex.Resp.Header.Get("X-Tok"), SummarizeExchange(o, ex))
		}
	}
	// an unsafe request to ANOTHER origin does not invalidate the entry, whatever its
	// response's Location / Content-Location names (RFC 9111 §4.4: same origin only)
	crossOriginObligations(o, r, "C09")
	return r
}

// C08: validation results are written back: 304 freshens, 200 replaces.
func C08(o *world.Obs) *Result {
	r := NewResult()
	sh := BuildShadow(o)
	if sh.Disabled != "" {
		r.Label("shadow-disabled")
		return r
	}
	// (2b) a replaced representation is never returned again
	for _, ex := range o.Exchanges {
		if ex.Resp == nil || !IsPlainGET(ex.Req) {
			continue
		}
		s := world.TokOf(ex.Resp.Header)
		if since, dead := sh.Dead[s]; dead && since < ex.StartSeq {
			r.NonTrivial = true
			r.Fail("C08", "replaced-reply-returned", ex.Idx, "reply s%d was replaced by the cacheable full reply s%d to its validation request, yet it is returned again; %s",
				s, sh.DeadBy[s], SummarizeExchange(o, ex))
		}
	}
	// a 304 is only ever merged into the reply whose validators the conditional request named
	for _, ex := range o.Exchanges {
		if ex.Resp == nil || !IsPlainGET(ex.Req) {
			continue
		}
		tok := world.TokOf(ex.Resp.Header)
		val, err := strconv.Atoi(ex.Resp.Header.Get("X-Val"))
		if tok < 0 || err != nil {
			continue
		}
		src, c304 := o.CallBySerial(tok), o.CallBySerial(val)
		if src == nil || c304 == nil || c304.Status != 304 || HasClientConditional(o.Exchanges[max(c304.Ex, 0)].Req) {
			continue
		}
		r.NonTrivial = true
		// validators the reply had before that 304 (any admissible version)
		etags, lms := map[string]bool{}, map[string]bool{}
		for _, v := range Versions(o, src, c304.StartSeq) {
			etags[v.Header.Get("Etag")] = true
			lms[v.Header.Get("Last-Modified")] = true
		}
		inm, ims := c304.Header.Get("If-None-Match"), c304.Header.Get("If-Modified-Since")
		if (inm != "" && !etags[inm]) || (inm == "" && ims != "" && !lms[ims]) {
			r.Fail("C08", "304-applied-to-another-reply", ex.Idx, "the 304 s%d answered a request with If-None-Match=%q If-Modified-Since=%q, validators reply s%d never had, yet its fields were merged into s%d; %s",
				val, inm, ims, tok, tok, SummarizeExchange(o, ex))
		}
	}
	// a validation is a question about the resource the client asked for: the request sent
	// upstream is the client's request plus the conditional fields
	for _, ex := range o.Exchanges {
		if !IsPlainGET(ex.Req) {
			continue
		}
		for _, c := range o.CallsOf(ex.Idx) {
			if d := upstreamRequestOK(ex, c); d != "" {
				r.Fail("C08", "validation-request-altered", ex.Idx, "upstream call s%d differs from the client's request: %s; %s", c.Serial, d, SummarizeExchange(o, ex))
			}
		}
	}
	// the response of the validating exchange itself is the freshened stored response: every
	// stored field is still there, the 304's fields have replaced their namesakes
	for _, ex := range o.Exchanges {
		if ex.Resp == nil || !IsPlainGET(ex.Req) || HasClientConditional(ex.Req) {
			continue
		}
		c304 := o.Validated304(ex)
		src := o.CallBySerial(world.TokOf(ex.Resp.Header))
		if c304 == nil || src == nil || ex.Resp.Header.Get("X-Val") != strconv.Itoa(c304.Serial) {
			continue
		}
		r.NonTrivial = true
		r.Label("revalidated-response-checked")
		suffix := "+s" + strconv.Itoa(c304.Serial)
		why, matched, candidates := "", false, 0
		for _, v := range Versions(o, src, ex.EndSeq+1) {
			if !strings.HasSuffix(strings.TrimSuffix(v.Why, " (old clock)"), suffix) {
				continue
			}
			candidates++
			if d := mergedFieldsDiff(v.Header, ex.Resp.Header); d == "" {
				matched = true
				break
			} else {
				why = d
			}
		}
		if candidates > 0 && !matched {
			r.Fail("C08", "revalidated-fields-wrong", ex.Idx, "the response validated by 304 s%d is not the stored reply s%d with the 304's fields applied: %s; %s", c304.Serial, src.Serial, why, SummarizeExchange(o, ex))
		}
	}
	for _, ob := range sh.Obligations {
		if ob.Kind == "fresh-hit" && !otherVariantValidated(sh, ob) {
			continue // plain C09 territory
		}
		r.NonTrivial = true
		ex := ob.Ex
		r.Label("obligation:" + ob.Kind)
		if ex.Panic != "" {
			continue
		}
		want := ob.Entry.Reply
		calls := o.CallsOf(ex.Idx)
		switch {
		case ex.Resp == nil:
			r.Fail("C08", "no-response", ex.Idx, "err=%q; %s", ex.Err, SummarizeExchange(o, ex))
			continue
		case len(calls) > 0:
			r.Fail("C08", "not-written-back:"+ob.Kind, ex.Idx, "origin contacted although stored reply s%d is inside the lifetime established by %q; %s",
				want.Serial, ob.V.Why, SummarizeExchange(o, ex))
			continue
		case world.TokOf(ex.Resp.Header) != want.Serial:
			r.Fail("C08", "wrong-entry:"+ob.Kind, ex.Idx, "expected stored reply s%d, got tok=%q; %s", want.Serial, ex.Resp.Header.Get("X-Tok"), SummarizeExchange(o, ex))
			continue
		}
		if !bytes.Equal(ex.Resp.Body, want.Body) {
			r.Fail("C08", "body-changed", ex.Idx, "body of s%d differs after validation (%d vs %d bytes); %s", want.Serial, len(ex.Resp.Body), len(want.Body), SummarizeExchange(o, ex))
		}
		if ob.Kind == "after-304" {
			// the updated fields must be visible, and the age restarts from the 304
			hop := model.HopByHop(ob.V.Header)
			for k, vs := range ob.V.Header {
				if hop[k] || k == "Content-Length" || k == "Age" || k == "X-Httpcache-Status" || k == "X-From-Cache" {
					continue
				}
				if k == "Date" {
					if _, ok := model.HTTPDate(ob.V.Header.Get("Date")); !ok || len(vs) != 1 {
						continue // the cache substitutes its own Date for a missing/invalid one
					}
				}
				if d := diffValues(vs, ex.Resp.Header.Values(k)); d != "" {
					r.Fail("C08", "304-fields-not-applied", ex.Idx, "field %s after freshening: %s (want %q); %s", k, d, vs, SummarizeExchange(o, ex))
					break
				}
			}
			if a := ex.Resp.Header.Values("Age"); len(a) == 1 {
				if n, err := strconv.ParseInt(a[0], 10, 64); err == nil {
					lo, hi, exact := ob.V.AgeBounds(ex.StartNs)
					if exact && (n < lo-1 || n > hi+1) {
						r.Fail("C08", "age-not-restarted", ex.Idx, "Age %d but the age counted from the 304 is %d..%d; %s", n, lo, hi, SummarizeExchange(o, ex))
					}
				}
			}
		}
	}
	return r
}

// mergedFieldsDiff compares the end-to-end fields of an admissible merged version with a
// returned header ("" if they agree).
func mergedFieldsDiff(want, got http.Header) string {
	hop := model.HopByHop(want)
	for k, vs := range want {
		if hop[k] || k == "Content-Length" || k == "Age" || k == "X-Httpcache-Status" || k == "X-From-Cache" {
			continue
		}
		if k == "Date" {
			if _, ok := model.HTTPDate(want.Get("Date")); !ok || len(vs) != 1 {
				continue // the cache substitutes its own Date for a missing/invalid one
			}
		}
		if d := diffValues(vs, got.Values(k)); d != "" {
			return "field " + k + ": " + d + " (want " + strconv.Quote(joinVals(vs)) + ")"
		}
	}
	return ""
}

// otherVariantValidated: the obligation is about a variant that must have survived the
// validation of a sibling variant of the same URI.
func otherVariantValidated(sh *Shadow, ob Obligation) bool {
	for _, e := range sh.entries[ob.Entry.URLNF] {
		if e != ob.Entry && (e.Validated > 0 || e.Replaced != nil) && e.StoredSeq < ob.Ex.StartSeq {
			return true
		}
	}
	return false
}

func diffValues(want, got []string) string {
	if len(want) != len(got) {
		return "got " + strconv.Quote(joinVals(got))
	}
	for i := range want {
		if want[i] != got[i] {
			return "got " + strconv.Quote(joinVals(got))
		}
	}
	return ""
}

func joinVals(v []string) string {
	out := ""
	for i, s := range v {
		if i > 0 {
			out += " | "
		}
		out += s
	}
	return out
}
