package oracle

import (
	"verif/harness/model"
	"verif/harness/world"
)

// C07: successful unsafe requests invalidate what is stored for their target.
func C07(o *world.Obs) *Result {
	r := NewResult()
	type inval struct {
		seq    int64 // sequence number at which the unsafe exchange ended
		start  int64 // ... and started
		nf     string
		uri    string
		via    string
		method string
		ex     int
	}
	var invs []inval
	for _, ex := range o.Exchanges {
		safe, certain := model.IsSafeMethod(ex.Req.Method)
		if safe {
			if !certain {
				r.Unspec("c07-registered-safe-method")
			}
			continue
		}
		if ex.Resp == nil {
			continue
		}
		if ex.Resp.Status < 200 || ex.Resp.Status >= 400 {
			r.Label("unsafe-error-status")
			continue
		}
		nf, ok := model.NF(ex.Req.URL, false)
		if !ok {
			continue
		}
		invs = append(invs, inval{ex.EndSeq, ex.StartSeq, nf, ex.Req.URL, "target", ex.Req.Method, ex.Idx})
		for _, c := range o.FgCalls(ex) {
			if c.Kind != "resp" {
				continue
			}
			for _, k := range []string{"Location", "Content-Location"} {
				locs := c.RespHdr.Values(k)
				if len(locs) != 1 {
					continue
				}
				abs, ok := resolveLoc(ex.Req.URL, locs[0])
				if !ok {
					continue
				}
				o1, ok1 := model.Origin(ex.Req.URL)
				o2, ok2 := model.Origin(abs)
				if !ok1 || !ok2 {
					continue
				}
				if o1 == o2 {
					if lnf, ok := model.NF(abs, false); ok {
						invs = append(invs, inval{ex.EndSeq, ex.StartSeq, lnf, abs, k, ex.Req.Method, ex.Idx})
					}
				}
			}
		}
	}
	// negative half: nothing stored earlier for an invalidated URI is returned without validation
	for _, ex := range o.Exchanges {
		if ex.Resp == nil || !IsPlainGET(ex.Req) {
			continue
		}
		src, fromStore := o.FromStore(ex)
		if !fromStore || o.Validated304(ex) != nil {
			continue
		}
		nf, ok := model.NF(ex.Req.URL, false)
		if !ok {
			continue
		}
		for _, iv := range invs {
			// judged: replies obtained by exchanges that were over before the unsafe exchange began
			// (an entry stored by a GET racing with the invalidation is not judged, DESIGN §3.21)
			srcDone := src.EndSeq
			if src.Ex >= 0 && src.Ex < len(o.Exchanges) && o.Exchanges[src.Ex].EndSeq > srcDone {
				srcDone = o.Exchanges[src.Ex].EndSeq
			}
			if iv.nf == nf && iv.seq < ex.StartSeq && srcDone < iv.start {
				r.Fail("C07", "not-invalidated:"+iv.via+":"+methodClass(iv.method), ex.Idx,
					"reply s%d stored before the successful %s (exchange #%d, invalidating %s via %s) is returned without validation; %s",
					src.Serial, iv.method, iv.ex, iv.uri, iv.via, SummarizeExchange(o, ex))
				break
			}
		}
	}
	for _, iv := range invs {
		// non-trivial: an affected entry existed and a GET followed
		for _, ex := range o.Exchanges {
			if nf, ok := model.NF(ex.Req.URL, false); ok && nf == iv.nf && IsPlainGET(ex.Req) && ex.StartSeq > iv.seq {
				for _, c := range o.Calls {
					if cnf, ok := model.NF(c.URL, false); ok && cnf == iv.nf && c.EndSeq < iv.seq && c.Kind == "resp" && c.Method == "GET" {
						r.NonTrivial = true
						r.Label("invalidation-followed-by-get:" + iv.via + ":" + methodClass(iv.method))
						break
					}
				}
				break
			}
		}
	}
	// positive half: cross-origin URIs named in Location/Content-Location stay cached.
	// The shadow model already keeps such entries (it only drops same-URL and named entries
	// conservatively), so this half is judged by a dedicated rule: an obligation exists for
	// a cross-origin entry iff the shadow built WITHOUT the unsafe exchanges would oblige it
	// and the only unsafe exchanges in between name it cross-origin.
	crossOriginObligations(o, r, "C07")
	return r
}

func methodClass(m string) string {
	switch m {
	case "POST", "PUT", "DELETE", "PATCH":
		return "common"
	}
	return "other"
}

// crossOriginObligations implements the positive half of C07.
func crossOriginObligations(o *world.Obs, r *Result, prop string) {
	if Tampered(o) {
		return // entries removed or rewritten behind the cache's back: no obligation to serve them
	}
	// Build a copy of the log without unsafe exchanges whose target origin differs from every
	// stored entry they name; then obligations of that filtered history that concern a URL
	// named cross-origin by a dropped exchange must hold in the real history.
	type named struct {
		nf  string
		seq int64
	}
	var crossNamed []named
	drop := map[int]bool{}
	for _, ex := range o.Exchanges {
		safe, _ := model.IsSafeMethod(ex.Req.Method)
		if safe || ex.Resp == nil {
			continue
		}
		allCross := true
		var ns []named
		for _, c := range o.FgCalls(ex) {
			if c.Kind != "resp" {
				continue
			}
			for _, k := range []string{"Location", "Content-Location"} {
				for _, loc := range c.RespHdr.Values(k) {
					abs, ok := resolveLoc(ex.Req.URL, loc)
					if !ok {
						allCross = false
						continue
					}
					o1, ok1 := model.Origin(ex.Req.URL)
					o2, ok2 := model.Origin(abs)
					h1, h2 := hostOf(ex.Req.URL), hostOf(abs)
					if !ok1 || !ok2 || o1 == o2 || isOddHost(h1) || isOddHost(h2) {
						allCross = false
						continue
					}
					if lnf, ok := model.NF(abs, false); ok {
						ns = append(ns, named{lnf, ex.EndSeq})
					}
				}
			}
		}
		if allCross && len(ns) > 0 {
			drop[ex.Idx] = true
			crossNamed = append(crossNamed, ns...)
		}
	}
	if len(crossNamed) == 0 {
		return
	}
	sh := buildShadow(o, drop)
	for _, ob := range sh.Obligations {
		hit := false
		for _, n := range crossNamed {
			if n.nf == ob.Entry.URLNF && n.seq < ob.Ex.StartSeq && ob.Entry.StoredSeq < n.seq {
				hit = true
			}
		}
		if !hit {
			continue
		}
		r.NonTrivial = true
		r.Label("cross-origin-entry-must-survive")
		ex := ob.Ex
		if ex.Panic != "" || ex.Resp == nil {
			continue
		}
		if len(o.CallsOf(ex.Idx)) > 0 || world.TokOf(ex.Resp.Header) != ob.Entry.Reply.Serial {
			r.Fail(prop, "cross-origin-evicted", ex.Idx, "fresh entry s%d of %s was named cross-origin by an unsafe response's Location/Content-Location and is no longer served from the store; %s",
				ob.Entry.Reply.Serial, ob.Entry.URL, SummarizeExchange(o, ex))
		}
	}
}

func hostOf(u string) string {
	nf, ok := model.Origin(u)
	if !ok {
		return ""
	}
	return nf
}

func isOddHost(originText string) bool {
	for i := 0; i < len(originText); i++ {
		if originText[i] == '[' || originText[i] == '%' || originText[i] >= 0x80 {
			return true
		}
	}
	return false
}
