package model

import (
	"net/http"
)

// statuses not assigned by IANA: no cache can claim to "understand" them
var unassigned = map[int]bool{209: true, 225: true, 299: true, 309: true, 399: true, 419: true, 420: true, 430: true, 499: true, 509: true, 520: true, 599: true}

// statuses the cache documents as understood (isStatusUnderstood)
var docUnderstood = map[int]bool{200: true, 203: true, 301: true, 304: true, 404: true, 405: true, 410: true, 414: true, 501: true, 308: true}

// Storability classifies an origin reply: "no" (property C06 forbids storing it),
// "sure" (stored by every reading of RFC 9111 §3 and the cache's documentation), or "maybe".
// reason names the deciding rule.
func Storability(method string, reqHeader http.Header, status int, respHeader http.Header, bodyFails bool) (verdict, reason string) {
	reqCC := ParseCC(reqHeader)
	cc := ParseCC(respHeader)
	plainGET := method == http.MethodGet && reqHeader.Get("Range") == "" // (present but empty: no range request, DESIGN section 9)
	understoodMaybe := !unassigned[status]
	switch {
	case !plainGET:
		return "no", "method-or-range"
	case status < 200 || status == 206 || status == 304:
		return "no", "status-1xx-206-304"
	case bodyFails:
		return "no", "body-incomplete"
	case cc.Has["must-understand"] && !understoodMaybe:
		return "no", "must-understand-unknown-status"
	case cc.Has["must-understand"]:
		// understood status + must-understand: no-store may be ignored (RFC 9111 §5.2.2.3)
		return "maybe", "must-understand"
	case reqCC.Has["no-store"]:
		return "no", "request-no-store"
	case cc.Has["no-store"]:
		return "no", "response-no-store"
	}
	_, maOK, maValid := cc.Delta("max-age")
	hasExpires := len(respHeader.Values("Expires")) > 0
	explicit := maOK || hasExpires || cc.Has["public"] || cc.Has["private"] || cc.Has["s-maxage"]
	heurAny := rfcHeuristic[status] || docHeuristic[status]
	if !explicit && !heurAny {
		return "no", "no-freshness-non-heuristic-status"
	}
	if _, star := VaryFields(respHeader.Values("Vary")); star {
		return "maybe", "vary-star"
	}
	if status >= 600 {
		return "maybe", "status>=600"
	}
	_, expValid := HTTPDate(respHeader.Get("Expires"))
	_, lmValid := HTTPDate(respHeader.Get("Last-Modified"))
	heurStrict := rfcHeuristic[status] && docHeuristic[status]
	switch {
	case maOK && maValid:
		return "sure", "max-age"
	case !maOK && hasExpires && expValid && len(respHeader.Values("Expires")) == 1:
		return "sure", "expires"
	case !maOK && !hasExpires && heurStrict && lmValid:
		return "sure", "heuristic"
	}
	return "maybe", "weak-freshness"
}

// IsSafeMethod: IANA-registered safe methods. certain=false for registered safe methods other
// than GET/HEAD/OPTIONS/TRACE (not judged by C07).
func IsSafeMethod(m string) (safe, certain bool) {
	switch m {
	case "GET", "HEAD", "OPTIONS", "TRACE":
		return true, true
	case "PROPFIND", "REPORT", "SEARCH", "PRI", "QUERY":
		return true, false
	}
	return false, true
}
