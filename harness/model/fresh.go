package model

import (
	"net/http"
	"strings"
	"time"
)

// T0 is the instant at which every synctest bubble starts.
var T0 = time.Date(2000, 1, 1, 0, 0, 0, 0, time.UTC)

// Version is one admissible metadata version of a stored reply: the header fields it is
// stored with, and the request/response times its age is counted from.
type Version struct {
	Status int
	Header http.Header
	ReqNs  int64 // request_time, ns since T0
	RespNs int64 // response_time, ns since T0
	Why    string
	Req    http.Header // header of the request that obtained / last validated it
}

func floorSec(ns int64) Sec {
	if ns >= 0 {
		return ns / 1e9
	}
	return -((-ns + 1e9 - 1) / 1e9)
}

func ceilSec(ns int64) Sec {
	if ns >= 0 {
		return (ns + 1e9 - 1) / 1e9
	}
	return -((-ns) / 1e9)
}

// HTTPDate parses an HTTP-date into seconds since T0.
func HTTPDate(s string) (Sec, bool) {
	if s == "" {
		return 0, false
	}
	t, err := http.ParseTime(s)
	if err != nil {
		return 0, false
	}
	// an HTTP-date is in GMT (RFC 9110 §5.6.7); the rfc850 layout of the parser takes any zone
	// abbreviation and reads one it does not know as if it were GMT
	if name, off := t.Zone(); off != 0 || (name != "GMT" && name != "UTC") {
		return 0, false
	}
	return t.Unix() - T0.Unix(), true
}

func FormatDate(secSinceT0 int64) string {
	return T0.Add(time.Duration(secSinceT0) * time.Second).UTC().Format(http.TimeFormat)
}

// DateOf returns the Date the cache works with: the origin's when valid, else the time the
// response was received (RFC 9110 §6.6.1: a recipient with a clock MUST record the time
// received as Date when the field is missing). lo/hi bound it in whole seconds.
func (v Version) DateOf() (lo, hi Sec, fromOrigin bool) {
	if d, ok := HTTPDate(v.Header.Get("Date")); ok && len(v.Header.Values("Date")) == 1 {
		return d, d, true
	}
	return floorSec(v.RespNs), ceilSec(v.RespNs), false
}

// AgeField classifies the Age header field.
// kind: "absent", "valid", "invalid" (not a non-negative integer), "multi" (list / several lines).
func (v Version) AgeField() (val Sec, kind string) {
	lines := v.Header.Values("Age")
	if len(lines) == 0 {
		return 0, "absent"
	}
	if len(lines) > 1 || strings.Contains(lines[0], ",") {
		return 0, "multi"
	}
	a := strings.TrimSpace(lines[0])
	d, ok := ParseDelta(a)
	if !ok {
		return 0, "invalid"
	}
	return d, "valid"
}

// AgeBounds returns lower and upper bounds (whole seconds) of current_age at nowNs
// (RFC 9111 §4.2.3). exact=false when the Age field is invalid or list-valued (then lo takes
// the most permissive reading: the field is ignored).
func (v Version) AgeBounds(nowNs int64) (lo, hi Sec, exact bool) {
	dlo, dhi, _ := v.DateOf()
	appLo := floorSec(v.RespNs) - dhi
	if appLo < 0 {
		appLo = 0
	}
	appHi := ceilSec(v.RespNs) - dlo
	if appHi < 0 {
		appHi = 0
	}
	ageVal, kind := v.AgeField()
	exact = kind == "absent" || kind == "valid"
	delayLo := floorSec(v.RespNs - v.ReqNs)
	delayHi := ceilSec(v.RespNs - v.ReqNs)
	if delayLo < 0 {
		delayLo = 0
	}
	if delayHi < 0 {
		delayHi = 0
	}
	corrLo := SatAdd(ageVal, delayLo)
	corrHi := SatAdd(ageVal, delayHi)
	initLo := max(appLo, corrLo)
	initHi := max(appHi, corrHi)
	resLo := floorSec(nowNs - v.RespNs)
	resHi := ceilSec(nowNs - v.RespNs)
	if resLo < 0 {
		resLo = 0
	}
	if resHi < 0 {
		resHi = 0
	}
	return SatAdd(initLo, resLo), SatAdd(initHi, resHi), exact
}

// RFC 9111 §4.2.2 / RFC 9110 §15.1 heuristically cacheable status codes.
var rfcHeuristic = map[int]bool{200: true, 203: true, 204: true, 206: true, 300: true, 301: true, 308: true, 404: true, 405: true, 410: true, 414: true, 501: true}

// Status codes the cache documents (code comment + tests) as heuristically cacheable.
var docHeuristic = map[int]bool{200: true, 203: true, 206: true, 301: true, 304: true, 308: true, 404: true, 405: true, 410: true, 414: true, 501: true}

// HeuristicAllowed: permissive = union of both lists (or public); strict = the intersection
// of both lists minus the never-storable 206/304.
func HeuristicAllowed(status int, cc CC, permissive bool) bool {
	if permissive {
		return rfcHeuristic[status] || docHeuristic[status] || cc.Has["public"]
	}
	return rfcHeuristic[status] && docHeuristic[status] && status != 206 && status != 304
}

// Lifetime returns bounds of the freshness lifetime (RFC 9111 §4.2.1-4.2.2) in whole seconds.
// kind: maxage | expires | heuristic | none. unspecified=true when the sources leave the
// value open (invalid max-age argument, several Expires lines).
func (v Version) Lifetime() (lo, hi Sec, kind string, unspecified bool) {
	cc := ParseCC(v.Header)
	if d, ok, valid := cc.Delta("max-age"); ok {
		if !valid {
			return 0, 0, "maxage", true
		}
		return d, d, "maxage", false
	}
	if exp := v.Header.Values("Expires"); len(exp) > 0 {
		if len(exp) > 1 {
			if _, ok := HTTPDate(exp[0]); !ok {
				// the first line alone and the lines combined are both no HTTP-date: already
				// expired under either reading (RFC 9111 §5.3), whatever a later line says
				return 0, 0, "expires", false
			}
			return 0, 0, "expires", true
		}
		e, ok := HTTPDate(exp[0])
		if !ok {
			return 0, 0, "expires", false // invalid date = already expired (RFC 9111 §5.3)
		}
		dlo, dhi, _ := v.DateOf()
		lo = e - dhi
		hi = e - dlo
		if lo < 0 {
			lo = 0
		}
		if hi < 0 {
			hi = 0
		}
		return lo, hi, "expires", false
	}
	lm, ok := HTTPDate(v.Header.Get("Last-Modified"))
	if ok && len(v.Header.Values("Last-Modified")) == 1 {
		dlo, dhi, _ := v.DateOf()
		dl := dlo - lm
		dh := dhi - lm
		if dh <= 0 {
			return 0, 0, "heuristic", false
		}
		if dl < 0 {
			dl = 0
		}
		return dl / 10, (dh + 9) / 10, "heuristic", false
	}
	return 0, 0, "none", false
}

// StaleForSure: under this version the reply is stale at nowNs whatever rounding is applied.
// unspecified=true when no verdict can be given.
func (v Version) StaleForSure(nowNs int64) (stale, unspecified bool, ageLo, lifeHi Sec, kind string) {
	ageLo, _, _ = v.AgeBounds(nowNs)
	_, lifeHi, kind, unspec := v.Lifetime()
	if unspec {
		return false, true, ageLo, lifeHi, kind
	}
	if kind == "heuristic" && !HeuristicAllowed(v.Status, ParseCC(v.Header), true) {
		lifeHi = 0
	}
	if ageLo >= Huge && lifeHi >= Huge {
		return false, true, ageLo, lifeHi, kind
	}
	return ageLo >= lifeHi, false, ageLo, lifeHi, kind
}

// FreshByMargin: under this version the reply is fresh at nowNs by more than `margin` seconds
// on the least permissive reading (used for the positive properties).
func (v Version) FreshByMargin(nowNs int64, margin Sec) (fresh bool, ageHi, lifeLo Sec, kind string) {
	_, ageHi, exact := v.AgeBounds(nowNs)
	lifeLo, _, kind, unspec := v.Lifetime()
	if unspec || !exact {
		return false, ageHi, lifeLo, kind
	}
	if kind == "heuristic" && !HeuristicAllowed(v.Status, ParseCC(v.Header), false) {
		return false, ageHi, 0, kind
	}
	if kind == "none" {
		return false, ageHi, 0, kind
	}
	if lifeLo >= Huge {
		// saturation point is the implementation's choice (>= 2^31)
		lifeLo = Huge
	}
	return SatAdd(ageHi, margin) < lifeLo, ageHi, lifeLo, kind
}

// hop-by-hop fields (RFC 9110 §7.6.1, RFC 9111 §3.1) in canonical form
var hopByHop = map[string]bool{
	"Connection": true, "Proxy-Connection": true, "Keep-Alive": true, "Te": true,
	"Transfer-Encoding": true, "Upgrade": true, "Proxy-Authenticate": true,
	"Proxy-Authentication-Info": true, "Proxy-Authorization": true,
}

// HopByHop returns the set of hop-by-hop field names of a header (incl. Connection-nominated).
func HopByHop(h http.Header) map[string]bool {
	m := map[string]bool{}
	for k := range hopByHop {
		m[k] = true
	}
	for _, line := range h.Values("Connection") {
		for _, f := range splitList(line) {
			f = trimOWS(f)
			if f != "" {
				m[http.CanonicalHeaderKey(f)] = true
			}
		}
	}
	return m
}

// Merge304 returns the header set after freshening stored with a 304 (RFC 9111 §3.2, §4.3.4):
// every field of the 304 replaces the stored one, except Content-Length and hop-by-hop fields.
//
// respNs is the instant the 304 was received: a recipient with a clock records it as the Date of
// a message that lacks a (valid) one before using the message (RFC 9110 §6.6.1).
func Merge304(stored, h304 http.Header, respNs int64) http.Header {
	out := stored.Clone()
	if _, ok := HTTPDate(h304.Get("Date")); !ok {
		h304 = h304.Clone()
		h304.Set("Date", FormatDate(floorSec(respNs)))
	}
	hop := HopByHop(h304)
	for k, vs := range h304 {
		if k == "Content-Length" || hop[k] {
			continue
		}
		out[k] = append([]string(nil), vs...)
	}
	return out
}
