// Package model is the reference semantics the oracles use. It is written from
// RFC 9111 / 9110 / 3986 / 5861 / 8246 and the property statements, independently of
// /repo/internal. It never predicts what the cache does; it only decides the antecedents
// and consequents of the properties, three-valued where the sources leave room.
package model

import (
	"math"
	"net/http"
	"strings"
)

// Sec is a saturating number of seconds.
type Sec = int64

const (
	SatMax Sec = math.MaxInt64 / 4
	Huge   Sec = 1 << 31
)

func SatAdd(a, b Sec) Sec {
	if a > 0 && b > 0 && a > SatMax-b {
		return SatMax
	}
	s := a + b
	if s > SatMax {
		return SatMax
	}
	return s
}

// CC is a parsed Cache-Control field: lower-case directive name -> argument.
type CC struct {
	Arg map[string]string
	Has map[string]bool
	// Quoted records whether the argument was given as a quoted-string.
	Quoted map[string]bool
}

func isOWS(c byte) bool { return c == ' ' || c == '\t' }

func trimOWS(s string) string {
	for len(s) > 0 && isOWS(s[0]) {
		s = s[1:]
	}
	for len(s) > 0 && isOWS(s[len(s)-1]) {
		s = s[:len(s)-1]
	}
	return s
}

// splitList splits a #rule list on commas outside quoted strings.
func splitList(s string) []string {
	var out []string
	var cur strings.Builder
	inQ, esc := false, false
	for i := 0; i < len(s); i++ {
		c := s[i]
		switch {
		case esc:
			cur.WriteByte(c)
			esc = false
		case inQ && c == '\\':
			cur.WriteByte(c)
			esc = true
		case c == '"':
			cur.WriteByte(c)
			inQ = !inQ
		case c == ',' && !inQ:
			out = append(out, cur.String())
			cur.Reset()
		default:
			cur.WriteByte(c)
		}
	}
	out = append(out, cur.String())
	return out
}

func unquote(s string) (string, bool) {
	if len(s) >= 2 && s[0] == '"' && s[len(s)-1] == '"' {
		in := s[1 : len(s)-1]
		var b strings.Builder
		for i := 0; i < len(in); i++ {
			if in[i] == '\\' && i+1 < len(in) {
				i++
			}
			b.WriteByte(in[i])
		}
		return b.String(), true
	}
	return s, false
}

// ParseCC parses all Cache-Control field lines of a header (RFC 9111 §5.2, RFC 9110 §5.3, §5.6.1).
func ParseCC(h http.Header) CC {
	return ParseCCLines(h.Values("Cache-Control"))
}

func ParseCCLines(lines []string) CC {
	cc := CC{Arg: map[string]string{}, Has: map[string]bool{}, Quoted: map[string]bool{}}
	for _, el := range splitList(strings.Join(lines, ",")) {
		el = trimOWS(el)
		if el == "" {
			continue
		}
		name, arg, hasArg := strings.Cut(el, "=")
		name = strings.ToLower(trimOWS(name))
		if name == "" {
			continue
		}
		if cc.Has[name] {
			// A repeated directive: the first occurrence is used (RFC 9111 §4.2.1) - except
			// that an argument-less no-cache is never narrowed by a qualified one beside it.
			if name == "no-cache" {
				members := 0
				if hasArg {
					v, _ := unquote(trimOWS(arg))
					for _, f := range splitList(v) {
						if trimOWS(f) != "" {
							members++
						}
					}
				}
				if members == 0 {
					delete(cc.Arg, name)
					delete(cc.Quoted, name)
				}
			}
			continue
		}
		cc.Has[name] = true
		if hasArg {
			v, q := unquote(trimOWS(arg))
			cc.Arg[name] = v
			cc.Quoted[name] = q
		}
	}
	return cc
}

// Delta parses a delta-seconds argument. ok=false if the directive is absent; valid=false if
// present but not 1*DIGIT. Values too large to represent saturate.
func (c CC) Delta(name string) (v Sec, ok, valid bool) {
	if !c.Has[name] {
		return 0, false, false
	}
	a, has := c.Arg[name]
	if !has {
		return 0, true, false
	}
	v, valid = ParseDelta(a)
	return v, true, valid
}

func ParseDelta(a string) (Sec, bool) {
	if a == "" {
		return 0, false
	}
	var v Sec
	for i := 0; i < len(a); i++ {
		c := a[i]
		if c < '0' || c > '9' {
			return 0, false
		}
		if v > (SatMax-9)/10 {
			v = SatMax
			continue
		}
		v = v*10 + Sec(c-'0')
	}
	return v, true
}

// NoCacheFields returns the field names of a qualified no-cache (nil, true for unqualified).
func (c CC) NoCache() (fields []string, present, qualified bool) {
	if !c.Has["no-cache"] {
		return nil, false, false
	}
	a, has := c.Arg["no-cache"]
	if !has || trimOWS(a) == "" {
		return nil, true, false
	}
	for _, f := range splitList(a) {
		f = trimOWS(f)
		if f != "" {
			fields = append(fields, http.CanonicalHeaderKey(f))
		}
	}
	return fields, true, len(fields) > 0
}
