package model

import (
	"net/url"
	"sort"
	"strings"
)

// ---------------------------------------------------------------------------
// URI normal forms (RFC 3986 §6.2.2-6.2.3)
//
// StrictNF applies only the normalisations the RFC (and property C03) lists: scheme and host
// case, percent-encoding case, decoding of percent-encoded unreserved ASCII, dot-segment
// removal, default port, empty path; the fragment is dropped. Two URIs with equal StrictNF
// are EQUIVALENT for sure.
//
// LooseNF additionally merges everything debatable (empty vs absent query, userinfo, IPv6
// textual forms, leading zeros in ports, raw non-ASCII vs its UTF-8
// percent-encoding, percent-encoded dots in dot-segments). Two URIs with different LooseNF are
// DISTINCT for sure. In between: UNSPECIFIED.

func isUnreservedASCII(c byte) bool {
	return (c >= 'a' && c <= 'z') || (c >= 'A' && c <= 'Z') || (c >= '0' && c <= '9') || c == '-' || c == '.' || c == '_' || c == '~'
}

func isHex(c byte) bool {
	return (c >= '0' && c <= '9') || (c >= 'a' && c <= 'f') || (c >= 'A' && c <= 'F')
}

func unhex(c byte) byte {
	switch {
	case c >= '0' && c <= '9':
		return c - '0'
	case c >= 'a' && c <= 'f':
		return c - 'a' + 10
	default:
		return c - 'A' + 10
	}
}

const upperHex = "0123456789ABCDEF"

// normPct upper-cases percent-escapes and decodes escapes of unreserved ASCII.
// With escapeRaw, raw bytes >= 0x80 are percent-encoded (loose form).
func normPct(s string, escapeRaw bool) string {
	var b strings.Builder
	for i := 0; i < len(s); i++ {
		c := s[i]
		if c == '%' && i+2 < len(s) && isHex(s[i+1]) && isHex(s[i+2]) {
			v := unhex(s[i+1])<<4 | unhex(s[i+2])
			if isUnreservedASCII(v) {
				b.WriteByte(v)
			} else {
				b.WriteByte('%')
				b.WriteByte(upperHex[v>>4])
				b.WriteByte(upperHex[v&15])
			}
			i += 2
			continue
		}
		if escapeRaw && c >= 0x80 {
			b.WriteByte('%')
			b.WriteByte(upperHex[c>>4])
			b.WriteByte(upperHex[c&15])
			continue
		}
		b.WriteByte(c)
	}
	return b.String()
}

// removeDotSegments implements RFC 3986 §5.2.4 on an (escaped) path.
func removeDotSegments(p string) string {
	var out []string
	in := p
	for len(in) > 0 {
		switch {
		case strings.HasPrefix(in, "../"):
			in = in[3:]
		case strings.HasPrefix(in, "./"):
			in = in[2:]
		case strings.HasPrefix(in, "/./"):
			in = in[2:]
		case in == "/.":
			in = "/"
		case strings.HasPrefix(in, "/../"):
			in = in[3:]
			if len(out) > 0 {
				out = out[:len(out)-1]
			}
		case in == "/..":
			in = "/"
			if len(out) > 0 {
				out = out[:len(out)-1]
			}
		case in == "." || in == "..":
			in = ""
		default:
			start := 0
			if in[0] == '/' {
				start = 1
			}
			j := strings.IndexByte(in[start:], '/')
			if j < 0 {
				out = append(out, in)
				in = ""
			} else {
				out = append(out, in[:start+j])
				in = in[start+j:]
			}
		}
	}
	return strings.Join(out, "")
}

func defaultPortOf(scheme string) string {
	switch scheme {
	case "http":
		return "80"
	case "https":
		return "443"
	}
	return ""
}

// splitAuthority splits "userinfo@host:port" textually (host may be an IP-literal in brackets).
func splitAuthority(a string) (userinfo, host, port string, hasPort bool) {
	if i := strings.LastIndexByte(a, '@'); i >= 0 {
		userinfo, a = a[:i], a[i+1:]
	}
	if strings.HasPrefix(a, "[") {
		if j := strings.IndexByte(a, ']'); j >= 0 {
			host = a[:j+1]
			rest := a[j+1:]
			if strings.HasPrefix(rest, ":") {
				return userinfo, host, rest[1:], true
			}
			return userinfo, host, "", false
		}
	}
	if i := strings.LastIndexByte(a, ':'); i >= 0 {
		return userinfo, a[:i], a[i+1:], true
	}
	return userinfo, a, "", false
}

// splitURI splits an absolute URI the way a Go client does: http.NewRequest parses the text
// with url.Parse and sends Host, EscapedPath and RawQuery on the wire, so those components
// (not the raw text) identify the resource that is requested.
func splitURI(text string) (scheme, authority, path, query string, hasQuery bool, ok bool) {
	u, err := url.Parse(text)
	if err != nil || u.Opaque != "" || u.Host == "" || u.Scheme == "" {
		return "", "", "", "", false, false
	}
	authority = u.Host
	if u.User != nil {
		authority = u.User.String() + "@" + authority
	}
	return u.Scheme, authority, u.EscapedPath(), u.RawQuery, u.RawQuery != "" || u.ForceQuery, true
}

// asciiLower folds ASCII letters only and keeps every other byte (host names are compared
// case-insensitively for ASCII; strings.ToLower would also merge bytes that are not UTF-8).
func asciiLower(s string) string {
	b := []byte(s)
	for i, c := range b {
		if 'A' <= c && c <= 'Z' {
			b[i] = c + ('a' - 'A')
		}
	}
	return string(b)
}

// NF computes the strict or loose normal form of an absolute http(s) URI given as text.
func NF(u string, loose bool) (string, bool) {
	scheme, authority, path, query, hasQuery, ok := splitURI(u)
	if !ok {
		return "", false
	}
	scheme = strings.ToLower(scheme)
	userinfo, host, port, _ := splitAuthority(authority)
	host = asciiLower(normPct(host, false))
	if port == defaultPortOf(scheme) {
		port = ""
	}
	if loose {
		userinfo = ""
		port = strings.TrimLeft(port, "0")
		if port == defaultPortOf(scheme) {
			port = ""
		}
		if strings.HasPrefix(host, "[") {
			// merge all textual forms of IPv6 literals: parse and re-render
			if ip := parseIP6(host[1 : len(host)-1]); ip != "" {
				host = "[" + ip + "]"
			}
		}
	}
	path = normPct(path, loose)
	if loose {
		// percent-encoded dots take part in dot-segment removal in the loose form only
		path = strings.ReplaceAll(path, "%2E", ".")
	}
	path = removeDotSegments(path)
	if path == "" {
		path = "/"
	}
	query = normPct(query, loose)
	var b strings.Builder
	b.WriteString(scheme)
	b.WriteString("://")
	if userinfo != "" {
		b.WriteString(normPct(userinfo, false))
		b.WriteByte('@')
	}
	b.WriteString(host)
	if port != "" {
		b.WriteByte(':')
		b.WriteString(port)
	}
	b.WriteString(path)
	if hasQuery && (query != "" || !loose) {
		b.WriteByte('?')
		b.WriteString(query)
	}
	return b.String(), true
}

func parseIP6(s string) string {
	u, err := url.Parse("http://[" + s + "]/")
	if err != nil {
		return ""
	}
	h := u.Hostname()
	// canonical text via net/netip is not needed: lower-case + strip zone is enough to merge
	// the forms our generator produces (case, leading zeros are handled below)
	parts := strings.Split(strings.ToLower(h), ":")
	for i, p := range parts {
		p = strings.TrimLeft(p, "0")
		if p == "" && parts[i] != "" {
			p = "0"
		}
		parts[i] = p
	}
	return strings.Join(parts, ":")
}

// URIRelation classifies a pair of URIs: "same" (textually), "equiv" (surely equivalent),
// "distinct" (surely distinct) or "unspecified".
func URIRelation(a, b string) string {
	sa, ok1 := NF(a, false)
	sb, ok2 := NF(b, false)
	if !ok1 || !ok2 {
		return "unspecified"
	}
	if sa == sb {
		return "equiv"
	}
	la, _ := NF(a, true)
	lb, _ := NF(b, true)
	if la != lb {
		return "distinct"
	}
	return "unspecified"
}

// SameOrigin reports whether two URIs surely have the same / surely have different origins.
func Origin(u string) (string, bool) {
	scheme, authority, _, _, _, ok := splitURI(u)
	if !ok {
		return "", false
	}
	scheme = strings.ToLower(scheme)
	_, host, port, _ := splitAuthority(authority)
	if port == "" {
		port = defaultPortOf(scheme)
	}
	return scheme + "://" + asciiLower(host) + ":" + port, true
}

// ---------------------------------------------------------------------------
// Selecting header equivalence (RFC 9111 §4.1 plus what the cache documents)

// VaryFields parses a Vary field value list into canonical names; star reports a "*" member.
func VaryFields(lines []string) (fields []string, star bool) {
	seen := map[string]bool{}
	for _, el := range splitList(strings.Join(lines, ",")) {
		el = trimOWS(el)
		if el == "" {
			continue
		}
		if el == "*" {
			star = true
			continue
		}
		k := canonicalKey(el)
		if !seen[k] {
			seen[k] = true
			fields = append(fields, k)
		}
	}
	sort.Strings(fields)
	return fields, star
}

func canonicalKey(s string) string {
	// textproto canonicalisation for tokens
	b := []byte(s)
	upper := true
	for i, c := range b {
		if upper && c >= 'a' && c <= 'z' {
			b[i] = c - 32
		} else if !upper && c >= 'A' && c <= 'Z' {
			b[i] = c + 32
		}
		upper = c == '-'
	}
	return string(b)
}

// squash removes all OWS, lower-cases, and sorts comma-separated members: two values whose
// squashed forms differ are DIFFERENT for sure (conservative "different" predicate).
func squash(v string) string { return squashFold(v, true) }

// squashFold is squash with or without the folding of letter case.
func squashFold(v string, fold bool) string { return squashOpt(v, fold, true) }

// squashOpt: alias = the content-coding aliases (x-gzip, x-compress) are names of the same thing;
// only so in fields that carry content codings, not in a field that is opaque to a cache.
func squashOpt(v string, fold, alias bool) string {
	parts := strings.Split(v, ",")
	for i, p := range parts {
		// byte-wise (ASCII case folding, SP / HTAB removed): strings.ToLower and strings.Map
		// would turn every byte that is not valid UTF-8 into U+FFFD and so merge distinct values
		bs := make([]byte, 0, len(p))
		for i := 0; i < len(p); i++ {
			c := p[i]
			switch {
			case c == ' ' || c == '\t':
				continue
			case fold && c >= 'A' && c <= 'Z':
				c += 'a' - 'A'
			}
			bs = append(bs, c)
		}
		p = string(bs)
		// the aliases of RFC 9110 §8.4.1 are names of codings: a member that IS one, not
		// every member that contains its text ("lx-gzip" is no spelling of "lgzip")
		name, rest, _ := strings.Cut(p, ";")
		switch {
		case alias && name == "x-gzip":
			name = "gzip"
		case alias && name == "x-compress":
			name = "compress"
		}
		if len(rest) > 0 || strings.HasSuffix(p, ";") {
			name += ";" + rest
		}
		parts[i] = name
	}
	var keep []string
	seen := map[string]bool{}
	for _, p := range parts {
		if p != "" && !seen[p] {
			seen[p] = true // a repeated list member carries no meaning of its own
			keep = append(keep, p)
		}
	}
	sort.Strings(keep)
	return strings.Join(keep, ",")
}

// SurelyDifferent: the two selecting header values (lists of field lines; nil = absent) differ
// under every normalisation the cache may apply. Absent and empty are treated alike.
func SurelyDifferent(a, b []string) bool {
	ja := squash(strings.Join(a, ","))
	jb := squash(strings.Join(b, ","))
	if strings.Contains(ja, ";q=") || strings.Contains(jb, ";q=") {
		// weights (q-values): how a cache ranks and merges weighted members is its own
		// business; only judged when one side is empty, or when the two lists name the very
		// same members and one of them refuses (weight zero, in any of its spellings) a member
		// the other accepts
		if (ja == "") != (jb == "") {
			return true
		}
		return refusalDiffers(ja, jb)
	}
	return ja != jb
}

// refusalDiffers: both squashed lists consist of the same members (weights aside), each at
// most once, and at least one member has the weight zero on one side and a positive (or no)
// weight on the other: "not acceptable" against "acceptable" (RFC 9110 §12.4.2).
func refusalDiffers(ja, jb string) bool {
	parse := func(j string) (map[string]bool, bool) {
		out := map[string]bool{} // member -> refused
		for _, m := range strings.Split(j, ",") {
			name, w := m, ""
			if i := strings.Index(m, ";q="); i >= 0 {
				name, w = m[:i], m[i+3:]
				if strings.Contains(w, ";") {
					return nil, false // parameters after the weight: not judged
				}
			}
			if _, dup := out[name]; dup || name == "" {
				return nil, false
			}
			refused := false
			switch w {
			case "":
			case "0", "0.", "0.0", "0.00", "0.000":
				refused = true
			default:
				// a well-formed positive qvalue (RFC 9110 §12.4.2), nothing else is judged
				ok := len(w) <= 5 && (w[0] == '0' || w[0] == '1') && (len(w) == 1 || w[1] == '.')
				for i := 2; ok && i < len(w); i++ {
					ok = w[i] >= '0' && w[i] <= '9' && (w[0] == '0' || w[i] == '0')
				}
				if !ok {
					return nil, false
				}
			}
			out[name] = refused
		}
		return out, true
	}
	a, oka := parse(ja)
	b, okb := parse(jb)
	if !oka || !okb || len(a) != len(b) {
		return false
	}
	differs := false
	for name, ra := range a {
		rb, ok := b[name]
		if !ok {
			return false
		}
		if ra != rb {
			differs = true
		}
	}
	return differs
}

// SurelyDifferentIn is SurelyDifferent for the values of one named field. For a field whose
// values are opaque to a cache - an extension field (X-...), Cookie - letter case is part of the
// value: "Abc" and "abc" are different values (only case normalisation that preserves the
// meaning is among the equivalences the property lists, and nothing is known about the meaning
// of such a field). Fields the cache's own table compares case-insensitively (Host, Referer,
// User-Agent, Content-Type ...) and the negotiation fields are judged as before.
func SurelyDifferentIn(field string, a, b []string) bool {
	if SurelyDifferent(a, b) {
		return true
	}
	if !(strings.HasPrefix(field, "X-") || field == "Cookie") {
		return false
	}
	ja, jb := strings.Join(a, ","), strings.Join(b, ",")
	if strings.Contains(ja, ";") || strings.Contains(jb, ";") {
		return false
	}
	return squashOpt(ja, false, false) != squashOpt(jb, false, false)
}

// OnlyRefusals reports whether every member of the (non-empty) value carries the weight 0:
// a list that only refuses things ("identity;q=0") says something else than no field at all.
func OnlyRefusals(a []string) bool {
	s := squash(strings.Join(a, ","))
	if s == "" {
		return false
	}
	for _, m := range strings.Split(s, ",") {
		i := strings.Index(m, ";q=")
		if i < 0 {
			return false
		}
		w := strings.TrimRight(strings.TrimRight(m[i+3:], "0"), ".")
		if w != "0" && w != "" {
			return false
		}
	}
	return true
}

// SurelySame: the values are equivalent under normalisations every reading accepts:
// identical field lines, or both absent/empty.
func SurelySame(a, b []string) bool {
	ea := len(a) == 0 || (len(a) == 1 && a[0] == "")
	eb := len(b) == 0 || (len(b) == 1 && b[0] == "")
	if ea || eb {
		return ea && eb
	}
	// several field lines are one combined list value (RFC 9110 §5.3)
	return strings.Join(a, ", ") == strings.Join(b, ", ")
}

// listFields: request header fields whose values the cache's normalisation table treats as
// lists whose member order and whose whitespace around the commas carry no meaning.
var listFields = map[string]bool{"Accept": true, "Accept-Charset": true, "Accept-Language": true, "Accept-Encoding": true, "Te": true}

// DocumentedSame: the two values of the selecting header field are spellings of one value
// under the normalisation the cache itself lays down for that field (its table of list
// fields): the same members, whatever their order and the blanks around the commas. Only
// simple members are judged - no weights, no repeated or empty members, no aliases, parameters
// only when written without blanks - so that nothing but the order of the members and the
// whitespace around the commas distinguishes the two spellings.
func DocumentedSame(field string, a, b []string) bool {
	if SurelySame(a, b) {
		return true
	}
	if !listFields[field] || len(a) == 0 || len(b) == 0 {
		return false
	}
	members := func(lines []string) ([]string, bool) {
		var out []string
		seen := map[string]bool{}
		for _, m := range strings.Split(strings.Join(lines, ","), ",") {
			m = strings.Trim(m, " \t")
			if m == "" || seen[m] || strings.HasPrefix(m, "x-") || strings.Contains(m, ";q=") || strings.Contains(m, ";Q=") || strings.HasSuffix(m, ";") {
				return nil, false // (parameters are part of a member - byte for byte -, weights are not judged)
			}
			for i := 0; i < len(m); i++ {
				c := m[i]
				if !(c >= 'a' && c <= 'z' || c >= 'A' && c <= 'Z' || c >= '0' && c <= '9' || c == '-' || c == '/' || c == '*' || c == '+' || c == '.' || c == ';' || c == '=') {
					return nil, false
				}
			}
			seen[m] = true
			out = append(out, m)
		}
		sort.Strings(out)
		return out, len(out) > 0
	}
	ma, oka := members(a)
	mb, okb := members(b)
	if !oka || !okb || len(ma) != len(mb) {
		return false
	}
	for i := range ma {
		if ma[i] != mb[i] {
			return false
		}
	}
	return true
}

// Components returns the loose-normalised components of a URI (for classification only).
func Components(u string) (scheme, authority, path, query string) {
	nf, ok := NF(u, true)
	if !ok {
		return "", "", "", ""
	}
	i := strings.Index(nf, "://")
	scheme = nf[:i]
	rest := nf[i+3:]
	if j := strings.IndexByte(rest, '?'); j >= 0 {
		query = rest[j+1:]
		rest = rest[:j]
	}
	if j := strings.IndexByte(rest, '/'); j >= 0 {
		authority, path = rest[:j], rest[j:]
	} else {
		authority = rest
	}
	return
}

// VariantHash is the 64-bit FNV-1a hash the cache derives a variant's store key from (names and
// values delimited by NUL, names in sorted order). Two different value sets with the same hash
// share one store key.
func VariantHash(fields []string, values map[string]string) uint64 {
	const offset, prime = 14695981039346656037, 1099511628211
	h := uint64(offset)
	add := func(s string) {
		for i := 0; i < len(s); i++ {
			h ^= uint64(s[i])
			h *= prime
		}
		h ^= 0
		h *= prime
	}
	names := append([]string(nil), fields...)
	sort.Strings(names)
	for _, n := range names {
		add(n)
		add(values[n])
	}
	return h
}
