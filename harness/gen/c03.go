package gen

import (
	"strings"

	"pgregory.net/rapid"

	"verif/harness/world"
)

var c03Schemes = []string{"http", "https", "HTTP", "hTTps"}
var c03Hosts = []string{"a.test", "A.Test", "a.test.", "b.test", "127.0.0.1", "[::1]", "[::1:8080]", "[0:0:0:0:0:0:0:1]", "[::ffff:1.2.3.4]", "[2001:db8::8080]", "[2001:db8::]", "xn--bcher-kva.test", "a%2Etest",
	// host names with bytes outside ASCII (a Go client can express them): not UTF-8, the
	// replacement character, and a neighbour
	"caf\xe9.test", "caf\xef\xbf\xbd.test", "caf\xe8.test",
	// link-local literals with a zone identifier (RFC 6874)
	"[fe80::1%25eth0]", "[fe80::1%25eth1]", "[fe80::1]"}
var c03Ports = []string{"", "", ":", ":80", ":443", ":8080", ":080", ":8443", ":0"}
var c03Segs = []string{"a", "A", ".", "..", "%2e", "%2E", "%41", "%61", "~", "%7E", "%7e", "%2F", "%2f", "%20", "é", "%C3%A9", "%c3%a9", "%E9", "%e9", ";p", "a;p=1", ":", "@", "b", "", "%25", "%2541", "+", "%2B", "%00", "*", "%", "\xe9", "\xe8", "\xef\xbf\xbd",
	// ordinary segments that merely begin or end like dot segments
	"..b", "...", "..%7Euser", ".a", "a.", "a..", ".%2E", "%2e%2E"}
var c03QueryAtoms = []string{"q=1", "q=2", "a=1&b=2", "b=2&a=1", "q=%E9", "q=%e9", "q=é", "q=%C3%A9", "q=%41", "q=A", "q=a", "q=%7E", "q=~", "q=%2F", "q=/", "q=%20", "q=+", "x", "", "q=%3F", "q=?", "q=a#f",
	// malformed escapes stay as they are: only valid ones take part in normalisation
	"q=%7z", "q=p", "x=100%zz", "x=100%00", "q=%g1", "q=%G1", "q=%", "q=%4", "q=%41%", "q=%4g", "q=@",
	// raw bytes that are not UTF-8, and the replacement character a lossy text encoding turns them into
	"q=\xe9", "q=\xe8", "q=\xef\xbf\xbd", "q=\xc3", "q=\xff\xfe"}
var c03Userinfo = []string{"", "", "", "u@", "u:p@", "U@"}

func c03URI(t *rapid.T, label string) string {
	var b strings.Builder
	b.WriteString(Pick(t, label+"-scheme", c03Schemes...))
	b.WriteString("://")
	b.WriteString(Pick(t, label+"-user", c03Userinfo...))
	b.WriteString(Pick(t, label+"-host", c03Hosts...))
	b.WriteString(Pick(t, label+"-port", c03Ports...))
	n := rapid.IntRange(0, 4).Draw(t, label+"-nseg")
	for i := 0; i < n; i++ {
		b.WriteByte('/')
		b.WriteString(Pick(t, label+"-seg"+itoa(int64(i)), c03Segs...))
	}
	if n > 0 && Pct(t, label+"-trail", 20) {
		b.WriteByte('/')
	}
	switch Weighted(t, label+"-q", 50, 40, 10) {
	case 1:
		b.WriteByte('?')
		b.WriteString(Pick(t, label+"-qa", c03QueryAtoms...))
	case 2:
		b.WriteByte('?')
		b.WriteString(Pick(t, label+"-qa1", c03QueryAtoms...))
		b.WriteByte('&')
		b.WriteString(Pick(t, label+"-qa2", c03QueryAtoms...))
	}
	if Pct(t, label+"-frag", 10) {
		b.WriteString("#frag")
	}
	return b.String()
}

// rewrite applies one textual rewrite (equivalence-preserving or distinguishing; the oracle
// classifies the result independently).
func c03Rewrite(t *rapid.T, label, u string) string {
	rep := func(old, new string) string {
		if i := strings.Index(u, old); i >= 0 {
			return u[:i] + new + u[i+len(old):]
		}
		return u
	}
	switch rapid.IntRange(0, 38).Draw(t, label) {
	case 0:
		return rep("http://", "HTTP://")
	case 1:
		return rep("a.test", "A.TEST")
	case 2:
		return rep("a.test/", "a.test:80/")
	case 3:
		return rep("a.test/", "a.test:443/")
	case 4:
		return rep("%e9", "%E9")
	case 5:
		return rep("%41", "A")
	case 6:
		return rep("~", "%7E")
	case 7:
		return rep("/a", "/./a")
	case 8:
		return rep("/a", "/x/../a")
	case 9:
		return u + "#f"
	case 10:
		return rep("http://", "https://")
	case 11:
		return rep("a.test", "b.test")
	case 12:
		return rep(":8080", ":8081")
	case 13:
		return rep("/a", "/A")
	case 14:
		return rep("%2F", "/")
	case 15:
		return rep("q=1", "q=2")
	case 16:
		return rep("a=1&b=2", "b=2&a=1")
	case 17:
		return strings.TrimSuffix(u, "/")
	case 18:
		return rep("%E9", "é")
	case 19:
		return rep("%C3%A9", "é")
	case 20:
		return rep("]:8080", ":8080]")
	case 21:
		return rep("[::1]", "[0:0:0:0:0:0:0:1]")
	case 22:
		return rep("?", "/?")
	case 23:
		return rep("%2e", ".")
	case 24:
		return rep("://", "://u@")
	case 25:
		return rep(":80/", ":080/")
	case 26:
		return rep("a.test", "a.test.")
	case 27:
		return rep("%25", "%")
	case 28:
		return rep("%7z", "p")
	case 29:
		return rep("%zz", "%00")
	case 30:
		return rep("%g1", "%G1")
	case 31:
		return rep("q=%4", "q=%04")
	case 32:
		return rep("\xe9", "\xef\xbf\xbd")
	case 33:
		return rep("\xe9", "\xe8")
	case 34:
		return rep("\xe9", "%E9")
	case 35:
		return rep("\xef\xbf\xbd", "\xff\xfe")
	case 36:
		return rep("a.test", "caf\xe9.test")
	case 37:
		return rep("%25eth0", "%25eth1")
	case 38:
		return rep("[fe80::1%25eth0]", "[fe80::2%25eth0]")
	}
	return u
}

func C03(t *rapid.T) *world.Scenario {
	sc := &world.Scenario{Prop: "C03", Backend: "mem"}
	a := c03URI(t, "a")
	// In the "swr" family stored responses go stale quickly and are refreshed in the
	// background, while the caller reuses its request object for something else (it may,
	// once it has closed the body): what the refresh stores still belongs to the URI asked for.
	swr := Pct(t, "swr", 12)
	mk := func(method, u string, hdr [][2]string) world.Step {
		rq := &world.Req{Method: method, URL: u, Header: hdr}
		cc := "max-age=100000"
		if swr {
			cc = "max-age=10, stale-while-revalidate=100000"
		}
		rq.Uncond = world.Reply{Kind: "resp", Status: 200, Body: world.Body{Len: 20}, Header: [][2]string{H("Date", "$T+0"), H("Cache-Control", cc), H("Etag", `"v$S"`)}}
		rq.Cond = &rq.Uncond
		if swr {
			rq.ReuseReq = true
		}
		odd := 5
		if swr {
			odd = 20 // the background refresh has to key what it stores like the foreground did
		}
		if strings.Contains(u, "%25eth") {
			// hosts whose text does not survive being re-parsed: the odd forms matter most here
			odd = 35
		}
		MaybeOddForm(t, "odd"+itoa(int64(len(sc.Steps))), rq, odd)
		if rq.OpaqueForm != 0 && Pct(t, "absform"+itoa(int64(len(sc.Steps))), 30) {
			rq.OpaqueForm = 3
		}
		if rq.OpaqueForm == 0 && Pct(t, "rootless"+itoa(int64(len(sc.Steps))), 4) {
			rq.Rootless = true
		}
		return ReqStep(rq)
	}
	if Pct(t, "glue", 6) {
		// A URL built with URL.JoinPath on a base without a path has a Path without the leading
		// slash. Its first segment must not be read as the tail of the host (or of the port).
		host := Pick(t, "glue-host", "a.test", "b.test", "127.0.0.1", "a.test:80", "a.test:8")
		seg := Pick(t, "glue-seg", "a", "b", "1", "0", "80", "A")
		rest := Pick(t, "glue-rest", "", "/x", "/a/b")
		scheme := Pick(t, "glue-scheme", "http", "https")
		plain := scheme + "://" + host + "/" + seg + rest
		glued := scheme + "://" + host + seg + rest
		first, second := mk("GET", plain, nil), mk("GET", glued, nil)
		first.Req.Rootless, first.Req.OpaqueForm, first.Req.DialVia = true, 0, ""
		second.Req.Rootless, second.Req.OpaqueForm, second.Req.DialVia = false, 0, ""
		if Pct(t, "glue-order", 50) {
			first, second = second, first
		}
		sc.Steps = append(sc.Steps, first, second)
		if Pct(t, "glue-again", 50) {
			sc.Steps = append(sc.Steps, mk("GET", plain, nil), mk("GET", glued, nil))
		}
		sc.Note = "glue"
		return sc
	}
	if Pct(t, "absform", 5) {
		// the absolute form on the request line names the authority; a Host field that says
		// something else is ignored. Requests for different authorities that carry the same
		// Host override are different requests.
		path := "/" + Pick(t, "abs-seg", "a", "b", "%2F")
		if Pct(t, "abs-q", 40) {
			path += "?" + Pick(t, "abs-qa", "q=1", "q=2")
		}
		host := Pick(t, "abs-override", "v.test", "a.test", "b.test:8080")
		k := rapid.IntRange(2, 4).Draw(t, "abs-n")
		for i := 0; i < k; i++ {
			lbl := "abs" + itoa(int64(i))
			u := Pick(t, lbl+"-scheme", "http", "https") + "://" + Pick(t, lbl+"-host", "a.test", "b.test", "a.test:8080", "127.0.0.1") + path
			st := mk("GET", u, nil)
			st.Req.DialVia, st.Req.Rootless = "", false
			st.Req.OpaqueForm = Pick(t, lbl+"-form", 2, 2, 3, 0)
			if st.Req.OpaqueForm != 0 && Pct(t, lbl+"-override", 70) {
				st.Req.HostOverride = host
			}
			sc.Steps = append(sc.Steps, st)
		}
		sc.Note = "absform"
		return sc
	}
	if Pct(t, "zoned", 5) {
		// link-local literals with a zone: the text of such a host does not parse again, so a
		// request target spelled in URL.Opaque has to be keyed from the URL's own parts
		path := "/" + Pick(t, "zoned-seg", "a", "b", "%2F")
		if Pct(t, "zoned-q", 40) {
			path += "?" + Pick(t, "zoned-qa", "q=1", "q=2")
		}
		k := rapid.IntRange(2, 4).Draw(t, "zoned-n")
		for i := 0; i < k; i++ {
			lbl := "zoned" + itoa(int64(i))
			u := Pick(t, lbl+"-scheme", "http", "https") + "://" + Pick(t, lbl+"-host", "[fe80::1%25eth0]", "[fe80::1%25eth1]", "[fe80::2%25eth0]", "[fe80::1]") + Pick(t, lbl+"-port", "", "", ":8080") + path
			st := mk("GET", u, nil)
			st.Req.DialVia, st.Req.Rootless = "", false
			st.Req.OpaqueForm = Pick(t, lbl+"-form", 1, 1, 1, 2, 0)
			sc.Steps = append(sc.Steps, st)
		}
		sc.Note = "zoned"
		return sc
	}
	sc.Steps = append(sc.Steps, mk("GET", a, nil))
	if swr {
		sc.Steps = append(sc.Steps, SleepStep(20))
	}
	n := rapid.IntRange(1, 3).Draw(t, "nb")
	for i := 0; i < n; i++ {
		lbl := "b" + itoa(int64(i))
		var b string
		switch Weighted(t, lbl+"-how", 60, 25, 15) {
		case 0:
			b = a
			k := rapid.IntRange(0, 3).Draw(t, lbl+"-nrw")
			for j := 0; j < k; j++ {
				b = c03Rewrite(t, lbl+"-rw"+itoa(int64(j)), b)
			}
		case 1:
			b = c03URI(t, lbl+"-indep")
		case 2:
			b = a
		}
		method := "GET"
		var hdr [][2]string
		switch Weighted(t, lbl+"-m", 75, 8, 5, 4, 4, 4) {
		case 1:
			// other range units and spellings are range requests just the same
			hdr = append(hdr, H("Range", Pick(t, lbl+"-range", "bytes=0-3", "bytes=0-3", "Bytes=0-3", "items=0-1", "pages=2-3", "bytes=-5", "x")))
		case 2:
			method = "HEAD"
		case 3:
			method = "POST"
		case 4:
			method = "OPTIONS"
		case 5:
			method = Pick(t, lbl+"-unk", "FOO", "get", "PROPFIND")
		}
		st := mk(method, b, hdr)
		if method == "GET" && Pct(t, lbl+"-nomethod", 4) {
			st.Req.EmptyMethod = true
		}
		sc.Steps = append(sc.Steps, st)
	}
	// a request sent to one address on behalf of another authority (Request.Host) says nothing
	// about the URI whose authority IS that address: ask for that one as well, after whatever
	// the requests so far (and their background refreshes) have stored
	for _, st := range append([]world.Step(nil), sc.Steps...) {
		if st.Op == "req" && st.Req.DialVia != "" && Pct(t, "viaaddr"+itoa(int64(len(sc.Steps))), 60) {
			if i := strings.Index(st.Req.URL, "://"); i >= 0 {
				rest := st.Req.URL[i+3:]
				j := strings.IndexAny(rest, "/?#")
				if j < 0 {
					j = len(rest)
				}
				plain := mk("GET", st.Req.URL[:i+3]+st.Req.DialVia+rest[j:], nil)
				plain.Req.DialVia, plain.Req.OpaqueForm, plain.Req.Rootless = "", 0, false
				sc.Steps = append(sc.Steps, plain)
			}
		}
	}
	// come back to URIs already used: what the requests in between stored must not have
	// displaced or shadowed what these get
	if swr || Pct(t, "again", 40) {
		k := rapid.IntRange(1, 3).Draw(t, "nagain")
		var reqs []*world.Req
		for _, st := range sc.Steps {
			if st.Op == "req" {
				reqs = append(reqs, st.Req)
			}
		}
		for j := 0; j < k; j++ {
			prev := reqs[rapid.IntRange(0, len(reqs)-1).Draw(t, "again"+itoa(int64(j)))]
			sc.Steps = append(sc.Steps, mk("GET", prev.URL, nil))
		}
	}
	return sc
}
