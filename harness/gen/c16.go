package gen

import (
	"pgregory.net/rapid"

	"verif/harness/world"
)

func C16Req(t *rapid.T, label string, concurrent bool) *world.Req {
	u := Pick(t, label+"-url", "http://a.test/c16/a", "http://a.test/c16/a", "http://a.test/c16/b")
	rq := &world.Req{Method: "GET", URL: u}
	if Pct(t, label+"-unsafe", 10) {
		rq.Method = Pick(t, label+"-m", "POST", "DELETE", "PUT")
	}
	if Pct(t, label+"-xa", 60) {
		// now and then under a key the caller wrote into the map itself ("!": not canonical)
		rq.Header = append(rq.Header, H("X-A", Pick(t, label+"-xav", "1", "2")))
	}
	if Pct(t, label+"-xb", 25) {
		rq.Header = append(rq.Header, H("X-B", Pick(t, label+"-xbv", "1", "2")))
	}
	if rq.Method == "GET" && Pct(t, label+"-rcc", 15) {
		rq.Header = append(rq.Header, H("Cache-Control", Pick(t, label+"-rccv", "no-cache", "max-age=0", "max-stale", "only-if-cached", `stale-if-error="30"`, `max-stale="5", stale-if-error="60"`, `min-fresh="0"`)))
	}
	life := Pick(t, label+"-life", int64(0), 0, 1, 60)
	cc := "max-age=" + itoa(life) + ", stale-while-revalidate=3600"
	if Pct(t, label+"-noswr", 25) {
		cc = "max-age=" + itoa(life)
	}
	if Pct(t, label+"-sie", 30) {
		cc += ", stale-if-error=3600"
	}
	rp := world.Reply{Kind: "resp", Status: 200, Body: world.Body{Len: Pick(t, label+"-blen", 16, 64, 5000, 70000)},
		Header: [][2]string{H("Date", "$T+0"), H("Cache-Control", cc), H("X-Gen", "g$S")}}
	// validators: ETag, Last-Modified, both or none (each takes another path through the
	// construction of the conditional request)
	rp.Header = append(rp.Header, validators(t, label+"-val")...)
	if Pct(t, label+"-vary", 50) {
		// one nominated field or several (stores of multi-field variants run concurrently too)
		rp.Header = append(rp.Header, H("Vary", Pick(t, label+"-varyv", "X-A", "X-A", "X-A, X-B", "X-B, X-A", "Accept-Language, X-A, X-B")))
	}
	if rq.Method != "GET" {
		rp.Header = [][2]string{H("Date", "$T+0")}
		if Pct(t, label+"-loc", 40) {
			rp.Header = append(rp.Header, H("Content-Location", "/c16/b"))
		}
	}
	rq.Uncond = rp
	switch Weighted(t, label+"-cond", 55, 20, 10, 15) {
	case 3:
		rq.Cond = &world.Reply{Kind: "resp", Status: Pick(t, label+"-5xx", 500, 503), Body: world.Body{Len: 9}, Header: [][2]string{H("Date", "$T+0")}}
	case 0:
		c := &world.Reply{Kind: "resp", Status: 304, Header: [][2]string{H("Date", "$T+0"), H("Cache-Control", cc), H("X-Gen", "g$S"), H("X-Upd-1", "u$S"), H("X-Upd-2", "u$S"), H("X-Upd-3", "u$S")}}
		rq.Cond = c
	case 1:
		c := rp
		c.Header = append([][2]string(nil), rp.Header...)
		rq.Cond = &c
	case 2:
		rq.Cond = &world.Reply{Kind: "err"}
	}
	if Pct(t, label+"-lat", 25) {
		rq.Uncond.LatencyNs = Sec
		if rq.Cond != nil {
			rq.Cond.LatencyNs = Sec
		}
	}
	if concurrent {
		rq.Scribble = Pct(t, label+"-scribble", 50)
		if Pct(t, label+"-late", 30) {
			rq.LateBodyNs = Sec
		}
		rq.ReuseReq = Pct(t, label+"-reuse", 30)
	} else {
		rq.Scribble = Pct(t, label+"-sscribble", 30)
		rq.ReuseReq = Pct(t, label+"-sreuse", 30)
	}
	if rq.ReuseReq && Pct(t, label+"-rlate", 40) {
		// reuse while a background revalidation may be in flight
		rq.ReuseDelayNs = Sec / 2
		rq.ReuseSet = [][2]string{H("X-A", Pick(t, label+"-rxav", "1", "2"))}
	}
	return rq
}

// C16 generates a sequential warm-up followed by concurrent request threads.
func C16(t *rapid.T) *world.Scenario {
	if Pct(t, "hammer", 5) {
		return c16Hammer(t)
	}
	sc := &world.Scenario{Prop: "C16", Backend: Pick(t, "backend", "mem", "mem", "fs")}
	nw := rapid.IntRange(0, 3).Draw(t, "warm")
	for i := 0; i < nw; i++ {
		sc.Steps = append(sc.Steps, ReqStep(C16Req(t, "w"+itoa(int64(i)), false)))
		if Pct(t, "wsl"+itoa(int64(i)), 40) {
			sc.Steps = append(sc.Steps, SleepStep(Pick(t, "wsd"+itoa(int64(i)), int64(1), 2, 61)))
		}
	}
	nth := rapid.IntRange(2, 4).Draw(t, "threads")
	for ti := 0; ti < nth; ti++ {
		n := rapid.IntRange(1, 4).Draw(t, "n"+itoa(int64(ti)))
		var th []*world.Req
		for i := 0; i < n; i++ {
			th = append(th, C16Req(t, "t"+itoa(int64(ti))+"-"+itoa(int64(i)), true))
		}
		sc.Threads = append(sc.Threads, th)
	}
	if Pct(t, "deferredlog", 10) {
		sc.Logger = "deferred" // an asynchronous slog handler: records are resolved at the end
	} else if Pct(t, "debuglog", 25) {
		// a handler that formats every record at once: whatever a record refers to (directive
		// maps, header maps) is read on the caller's goroutine while background work may run
		sc.Logger = "debug"
	}
	if Pct(t, "swrerr", 8) {
		// A class that is otherwise near zero (three conditions that must coincide): a
		// stale-while-revalidate hit whose request carries directives in quoted-string form,
		// whose background validation fails (5xx / error), under a logger that reads what the
		// records refer to. Everything the foreground shares with the background goroutine
		// (directive maps, freshness, request clone) is then consulted on both sides.
		sc.Logger = Pick(t, "swrerr-log", "debug", "debug", "deferred")
		w := C16Req(t, "swrerr-w", false)
		w.Method, w.URL = "GET", "http://a.test/c16/a"
		w.Uncond.Header = [][2]string{H("Date", "$T+0"), H("Cache-Control", "max-age=1, stale-while-revalidate=3600"), H("X-Gen", "g$S"), H("Etag", `"e$S"`)}
		w.Uncond.LatencyNs = 0
		sc.Steps = append(sc.Steps, ReqStep(w), SleepStep(2))
		for ti, th := range sc.Threads {
			for i, rq := range th {
				lbl := "swrerr-t" + itoa(int64(ti)) + "-" + itoa(int64(i))
				if rq.Method != "GET" || !Pct(t, lbl, 70) {
					continue
				}
				rq.URL = "http://a.test/c16/a"
				var hs [][2]string
				for _, h := range rq.Header {
					if h[0] != "Cache-Control" {
						hs = append(hs, h)
					}
				}
				rq.Header = append(hs, H("Cache-Control", Pick(t, lbl+"-cc", `stale-if-error="30"`, `max-stale="5", stale-if-error="60"`, `min-fresh="0", stale-if-error="5"`, `stale-if-error="0"`, `max-age="3600", stale-if-error="7"`)))
				switch Weighted(t, lbl+"-cond", 60, 20, 20) {
				case 0:
					rq.Cond = &world.Reply{Kind: "resp", Status: Pick(t, lbl+"-5xx", 500, 502, 503, 504), Body: world.Body{Len: 9}, Header: [][2]string{H("Date", "$T+0")}}
				case 1:
					rq.Cond = &world.Reply{Kind: "err"}
				}
			}
		}
	}
	if Pct(t, "rawkeys", 8) {
		// Some callers write a field into the header map under a key of their own spelling
		// ("!": not canonical). Which variant such a request selects is not judged (Go code
		// conventionally does not see such keys), but the request is still the caller's.
		raw := func(lbl string, rq *world.Req) {
			for i := range rq.Header {
				if rq.Header[i][0] == "X-A" && Pct(t, lbl, 60) {
					rq.Header[i][0] = Pick(t, lbl+"k", "!x-a", "!X-a", "!x-A")
				}
			}
		}
		for i, st := range sc.Steps {
			if st.Op == "req" {
				raw("raw-w"+itoa(int64(i)), st.Req)
			}
		}
		for ti, th := range sc.Threads {
			for i, rq := range th {
				raw("raw-t"+itoa(int64(ti))+"-"+itoa(int64(i)), rq)
			}
		}
	}
	return sc
}

// c16Hammer: several threads store the same URI again and again (end-to-end reloads) with
// bodies of very different sizes on a file-system backend, then the entry is read back.
func c16Hammer(t *rapid.T) *world.Scenario {
	sc := &world.Scenario{Prop: "C16", Backend: Pick(t, "hbackend", "fs", "fs", "fsenc", "mem")}
	u := "http://a.test/c16/hammer"
	mk := func(lbl string, reload bool) *world.Req {
		rq := &world.Req{Method: "GET", URL: u}
		if reload {
			rq.Header = [][2]string{H("Cache-Control", "no-cache")}
		}
		// delimited by the end of the stored entry: a spliced file shows as a spliced body
		rp := world.Reply{Kind: "resp", Status: 200, Shape: Pick(t, lbl+"-shape", "close", "close", "h2nolen", "cl"), Body: world.Body{Len: Pick(t, lbl+"-blen", 16, 5000, 70000, 150000), Class: "rand", Seed: uint64(rapid.IntRange(1, 99).Draw(t, lbl+"-seed"))},
			Header: [][2]string{H("Date", "$T+0"), H("Cache-Control", "max-age=1000"), H("Etag", `"v$S"`)}}
		rq.Uncond, rq.Cond = rp, &rp
		return rq
	}
	nth := rapid.IntRange(3, 6).Draw(t, "hthreads")
	for ti := 0; ti < nth; ti++ {
		var th []*world.Req
		for i := 0; i < rapid.IntRange(2, 4).Draw(t, "hn"+itoa(int64(ti))); i++ {
			th = append(th, mk("h"+itoa(int64(ti))+"-"+itoa(int64(i)), true))
		}
		sc.Threads = append(sc.Threads, th)
	}
	sc.After = []world.Step{ReqStep(mk("after0", false)), ReqStep(mk("after1", false))}
	return sc
}
