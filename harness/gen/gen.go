// Package gen holds the rapid generators. All randomness comes from rapid draws.
package gen

import (
	"fmt"
	"strconv"
	"strings"

	"pgregory.net/rapid"

	"verif/harness/world"
)

const Sec = int64(1e9)

// Boundary-biased second values.
var secPool = []int64{0, 1, 2, 5, 9, 10, 11, 59, 60, 61, 100, 599, 600, 601, 3599, 3600, 3601, 86400}

// Textual delta-seconds beyond int32 / int64 / time.Duration range.
var hugeText = []string{
	"2147483647", "2147483648", "2147483649", "4294967296", "9007199254740992",
	"9223372035", "9223372036", "9223372037", "18446744073", "18446744074",
	"9223372036854775807", "9223372036854775808", "18446744073709551615", "18446744073709551616",
	"1000000000000000000000000000000",
}

var invalidDeltaText = []string{"", "abc", "-1", "1.5", "1e3", "0x10", "+5", "60s", " 60"}

func Seconds(t *rapid.T, label string) int64 {
	return rapid.SampledFrom(secPool).Draw(t, label)
}

// SecondsNear draws from the pool or next to one of the values in play (L-1, L, L+1).
func SecondsNear(t *rapid.T, label string, inPlay []int64) int64 {
	if len(inPlay) > 0 && rapid.IntRange(0, 99).Draw(t, label+"-rel") < 60 {
		l := rapid.SampledFrom(inPlay).Draw(t, label+"-base")
		d := rapid.SampledFrom([]int64{-1, 0, 1, 0, -2, 2}).Draw(t, label+"-off")
		if l+d < 0 {
			return 0
		}
		return l + d
	}
	return Seconds(t, label)
}

func Pct(t *rapid.T, label string, p int) bool {
	return rapid.IntRange(0, 99).Draw(t, label) < p
}

func Pick[T any](t *rapid.T, label string, xs ...T) T {
	return rapid.SampledFrom(xs).Draw(t, label)
}

// Weighted picks index i with probability w[i]/sum(w).
func Weighted(t *rapid.T, label string, w ...int) int {
	sum := 0
	for _, x := range w {
		sum += x
	}
	r := rapid.IntRange(0, sum-1).Draw(t, label)
	for i, x := range w {
		if r < x {
			return i
		}
		r -= x
	}
	return len(w) - 1
}

func itoa(n int64) string { return strconv.FormatInt(n, 10) }

func DateOff(n int64) string {
	if n >= 0 {
		return "$T+" + itoa(n)
	}
	return "$T" + itoa(n)
}

// DateOffFmt renders the offset in one of the three HTTP-date formats a recipient must accept
// (RFC 9110 §5.6.7): 'T' IMF-fixdate, 'R' RFC 850, 'A' asctime - or, rarely, as a wall-clock
// reading in another zone ('J' JST, 'P' PST), which is not an HTTP-date at all.
func DateOffFmt(t *rapid.T, label string, n int64) string {
	f := "T"
	switch Weighted(t, label+"-datefmt", 80, 8, 8, 2, 2) {
	case 1:
		f = "R"
	case 2:
		f = "A"
	case 3:
		// the same instant written in another zone (rfc850 layout): no HTTP-date - those are
		// in GMT - and above all not that wall-clock reading taken as GMT
		f = "J"
	case 4:
		f = "P"
	}
	if n >= 0 {
		return "$" + f + "+" + itoa(n)
	}
	return "$" + f + itoa(n)
}

// PadZeros left-pads a delta-seconds value with zeros now and then (1*DIGIT allows it).
func PadZeros(t *rapid.T, label, v string) string {
	if Pct(t, label+"-pad", 8) {
		return strings.Repeat("0", Pick(t, label+"-padn", 1, 5, 9, 12, 25)) + v
	}
	return v
}

// Hist tracks what the generator knows about the history so far.
type Hist struct {
	InPlay []int64 // lifetimes / windows (seconds) mentioned so far
}

func (h *Hist) Note(n int64) {
	// keep the virtual clock well inside the range of time.Duration (292 years): sleeps are
	// drawn relative to the noted values and a history has at most ~30 of them
	if n >= 0 && n <= 100_000_000 {
		h.InPlay = append(h.InPlay, n)
	}
}

func JoinCC(parts []string) string { return strings.Join(parts, ", ") }

// CCLines renders a directive list as Cache-Control field lines: mostly one line, now and then
// with an empty line in front (an empty list element) or split over two lines (a list field
// may be spread over several field lines, RFC 9110 §5.3) - the meaning is the same.
func CCLines(t *rapid.T, label string, parts []string) [][2]string {
	switch Weighted(t, label+"-cclines", 80, 10, 10) {
	case 1:
		return [][2]string{H("Cache-Control", ""), H("Cache-Control", JoinCC(parts))}
	case 2:
		if len(parts) >= 2 {
			k := rapid.IntRange(1, len(parts)-1).Draw(t, label+"-ccsplit")
			return [][2]string{H("Cache-Control", JoinCC(parts[:k])), H("Cache-Control", JoinCC(parts[k:]))}
		}
	}
	return [][2]string{H("Cache-Control", JoinCC(parts))}
}

func H(k, v string) [2]string { return [2]string{k, v} }

func SleepStep(sec int64) world.Step { return world.Step{Op: "sleep", DurNs: sec * Sec} }

func ReqStep(r *world.Req) world.Step { return world.Step{Op: "req", Req: r} }

// Simple304 is a 304 that changes nothing.
func Simple304() *world.Reply {
	return &world.Reply{Kind: "resp", Status: 304, Header: [][2]string{{"Date", "$T+0"}}}
}

func Describe(sc *world.Scenario) string {
	var b strings.Builder
	fmt.Fprintf(&b, "backend=%s", sc.Backend)
	for _, st := range sc.Steps {
		switch st.Op {
		case "sleep":
			fmt.Fprintf(&b, " | sleep %ds", st.DurNs/Sec)
		case "req":
			fmt.Fprintf(&b, " | %s %s %v => %d %v", st.Req.Method, st.Req.URL, st.Req.Header, st.Req.Uncond.Status, st.Req.Uncond.Header)
		default:
			fmt.Fprintf(&b, " | %s", st.Op)
		}
	}
	return b.String()
}

// MaybeLogger switches logging on for a share of the request histories (any handler, any
// level): no property depends on it, so every oracle must come to the same verdict.
// C10 and C12 choose the logger themselves (differential / twin runs).
func MaybeLogger(t *rapid.T, sc *world.Scenario) {
	if sc == nil || sc.Logger != "" || sc.Store != nil || len(sc.Case) > 0 || sc.Prop == "C10" || sc.Prop == "C12" || sc.Twin != nil {
		return
	}
	if Pct(t, "logger-on", 12) {
		sc.Logger = Pick(t, "logger-kind", "debug", "debug", "text", "info", "warn", "error")
	}
}

// MaybeOddForm lets a request spell its target URI the way some Go clients do: through
// URL.Opaque, or (like a reverse proxy) with URL.Host an address and Request.Host the authority.
// The target URI - and so everything the cache owes the request - is unchanged.
func MaybeOddForm(t *rapid.T, label string, rq *world.Req, pct int) {
	switch {
	case Pct(t, label+"-opaque", pct):
		rq.OpaqueForm = Pick(t, label+"-opaquef", 1, 2)
	case Pct(t, label+"-dialvia", pct):
		rq.DialVia = Pick(t, label+"-dialviav", "10.0.0.7:8080", "127.0.0.1", "gateway.internal:80")
	}
	if rq.OpaqueForm == 0 && Pct(t, label+"-stalerawpath", pct) {
		rq.StaleRawPath = true
	}
	if Pct(t, label+"-via2", pct) {
		rq.Via2 = true // through a second transport that is open on the same store
	}
}
