package gen

import (
	"strings"

	"pgregory.net/rapid"

	"verif/harness/world"
)

// FaultKinds lists the store fault kinds: operation errors and mutated / arbitrary bytes.
var FaultKinds = []world.Fault{
	{Kind: "err"}, {Kind: "notexist"}, {Kind: "empty"},
	{Kind: "trunc", Arg: 1}, {Kind: "trunc", Arg: 40}, {Kind: "trunc", Arg: 97}, {Kind: "trunc", Arg: 200},
	{Kind: "flip", Arg: 0}, {Kind: "flip", Arg: 5}, {Kind: "flip", Arg: 50}, {Kind: "flip", Arg: 90}, {Kind: "flip", Arg: 150},
	{Kind: "const", Data: "null"}, {Kind: "const", Data: "[null]"}, {Kind: "const", Data: "[]"}, {Kind: "const", Data: "{}"},
	{Kind: "const", Data: "[{}]"}, {Kind: "const", Data: `[{"id":""}]`}, {Kind: "const", Data: `[{"id":5}]`}, {Kind: "const", Data: `{"id":"a"}`},
	{Kind: "const", Data: "[1]"}, {Kind: "const", Data: `"str"`}, {Kind: "const", Data: "[null,null]"},
	{Kind: "const", Data: `[{"id":"http://a.test/c02#0","vary":"*","vary_resolved":null}]`},
	{Kind: "const", Data: `[{"id":"http://a.test/c02#0","vary":"X-A","vary_resolved":{"X-A":"1"},"received_at":"garbage"}]`},
	{Kind: "const", Data: "id\t2000-01-01T00:00:00Z\t2000-01-01T00:00:00Z\n"},
	{Kind: "const", Data: "HTTP/1.1 200 OK\r\n\r\n"},
	{Kind: "const", Data: "id\tx\ty\nHTTP/1.1 200 OK\r\nContent-Length: 5\r\n\r\nab"},
	{Kind: "const", Data: "id\t2000-01-01T00:00:00Z\t2000-01-01T00:00:00Z\nHTTP/1.1 200 OK\r\nCache-Control: max-age=abc\r\nDate: x\r\nExpires: y\r\nAge: z\r\n\r\n"},
	{Kind: "const", Data: "id\t2000-01-01T00:00:00Z\t2000-01-01T00:00:00Z\nHTTP/1.1 304 Not Modified\r\n\r\n"},
	{Kind: "const", Data: "\n"}, {Kind: "const", Data: "a\tb\n"}, {Kind: "const", Data: "a\tb\tc\td\n"},
}

// C10Base draws a history with origin failures from the generators of the other properties.
func C10Base(t *rapid.T) *world.Scenario {
	var sc *world.Scenario
	base := Weighted(t, "base", 15, 20, 15, 20, 10, 10, 10)
	switch base {
	case 0:
		sc = C01(t)
	case 1:
		sc = C02(t)
	case 2:
		sc = C08(t)
	case 3:
		sc = C13(t)
	case 4:
		sc = C06(t)
	case 5:
		sc = C07(t)
	case 6:
		sc = C04(t)
	}
	sc.Prop = "C10"
	if len(sc.Steps) > 8 {
		sc.Steps = sc.Steps[:8]
	}
	// origin failures: transport errors, 5xx, malformed fields, failing bodies
	for i, st := range sc.Steps {
		if st.Op != "req" {
			continue
		}
		lbl := "of" + itoa(int64(i))
		if Pct(t, lbl+"-trace", 35) {
			st.Req.TraceID = Pick(t, lbl+"-tid", "trace-1", "t", "00-4bf92f3577b34da6a3ce929d0e0e4736-00f067aa0ba902b7-01")
		}
		if base == 3 {
			continue // the stale-if-error histories bring their own failing validations
		}
		if Pct(t, lbl+"-ctxdone", 6) {
			// the caller's context ends while the origin is answering, and the origin answers
			// all the same (successfully): that is no failure of the origin call
			d := Pick(t, lbl+"-ctxlat", int64(1), 2) * Sec
			st.Req.Uncond.LatencyNs, st.Req.Uncond.IgnoreCtx = d, true
			if st.Req.Cond != nil {
				c := *st.Req.Cond
				c.LatencyNs, c.IgnoreCtx = d, true
				st.Req.Cond = &c
			}
			if Pct(t, lbl+"-ctxkind", 50) {
				st.Req.CancelNs = d / 2
			} else {
				st.Req.DeadlineNs = d / 2
			}
			continue
		}
		if Pct(t, lbl+"-nilhdr", 3) {
			// an upstream RoundTripper that leaves Response.Header nil
			st.Req.Uncond.NilHeader = true
			continue
		}
		if len(st.Req.Header) == 0 && Pct(t, lbl+"-nilreqhdr", 4) {
			// http.Request{Method: "GET", URL: u}: a valid request without a header map
			st.Req.NilReqHeader = true
		}
		switch Weighted(t, lbl, 60, 10, 10, 10, 10, 6) {
		case 5:
			// every byte of the body arrives, then Close reports an error
			st.Req.Uncond.Body.CloseErr = true
			if st.Req.Cond != nil && st.Req.Cond.Status != 304 && Pct(t, lbl+"-closeerr-cond", 50) {
				c := *st.Req.Cond
				c.Body.CloseErr = true
				st.Req.Cond = &c
			}
		case 1:
			st.Req.Cond = &world.Reply{Kind: "err"}
		case 2:
			st.Req.Uncond = world.Reply{Kind: "err"}
		case 3:
			st.Req.Cond = &world.Reply{Kind: "resp", Status: Pick(t, lbl+"-5xx", 500, 502, 503, 504), Header: [][2]string{H("Date", "garbage"), H("Expires", "x"), H("Age", "-1"), H("Last-Modified", "y"), H("Cache-Control", "max-age=abc, stale-if-error=60")}, Body: world.Body{Len: 10}}
		case 4:
			st.Req.Uncond.Body.FailAt = 1 + rapid.IntRange(0, 20).Draw(t, lbl+"-failat")
			if st.Req.Uncond.Body.Len < 30 {
				st.Req.Uncond.Body.Len = 30
			}
			if Pct(t, lbl+"-decl", 30) {
				// the origin announced far more than it sent before the stream broke (or ended)
				st.Req.Uncond.DeclLen = Pick(t, lbl+"-decllen", int64(1)<<20, 1<<31, 1<<32+5, 1<<40, 1<<62, 1<<63-1, 1<<63-600)
				st.Req.Uncond.Shape = "cl"
				if Pct(t, lbl+"-declclean", 30) {
					st.Req.Uncond.Body.FailAt = 0
				}
			}
			if Pct(t, lbl+"-failhold", 40) {
				// the caller reads what there is of the body only later, after other responses
				// have passed through the cache
				st.Req.HoldBody = true
				st.Req.Uncond.Body.Class = "rand"
			}
		}
	}
	// a background validation whose entry disappears while it waits for the origin (an unsafe
	// request invalidates it), answered by a failure - with the request allowing stale-if-error
	var steps []world.Step
	for i, st := range sc.Steps {
		steps = append(steps, st)
		if st.Op == "req" && st.Req.Bg != nil && st.Req.Bg.LatencyNs > 0 && len(st.Req.Header) <= 1 && Pct(t, "vanish"+itoa(int64(i)), 25) {
			hasCC := false
			for _, kv := range st.Req.Header {
				if kv[0] == "Cache-Control" {
					hasCC = true
				}
			}
			if !hasCC {
				st.Req.Header = append(st.Req.Header, H("Cache-Control", "stale-if-error=60"))
			}
			bg := world.Reply{Kind: Pick(t, "vanishk"+itoa(int64(i)), "resp", "resp", "err"), Status: Pick(t, "vanishst"+itoa(int64(i)), 500, 503, 200, 304), LatencyNs: st.Req.Bg.LatencyNs,
				Body: world.Body{Len: 10}, Header: [][2]string{H("Date", "$T+0")}}
			st.Req.Bg = &bg
			steps = append(steps, ReqStep(&world.Req{Method: Pick(t, "vanishm"+itoa(int64(i)), "POST", "DELETE", "PUT"), URL: st.Req.URL,
				Uncond: world.Reply{Kind: "resp", Status: 204, Header: [][2]string{H("Date", "$T+0")}}}))
		}
	}
	sc.Steps = steps
	// hosts of every form a Go client can express
	if Pct(t, "oddhost", 6) {
		host := Pick(t, "oddhostv", "[fe80::1%25eth0]:8080", "[fe80::1%25eth0]", "[::1]", "A.TEST.", "caf\xe9.test", "127.0.0.1:0")
		for _, st := range sc.Steps {
			if st.Op == "req" {
				st.Req.URL = strings.Replace(st.Req.URL, "a.test", host, 1)
			}
		}
	}
	// URLs that are no absolute http(s) URIs: whatever the upstream makes of them, the
	// cache neither panics nor invents an answer
	if Pct(t, "noscheme", 4) {
		how := Pick(t, "noschemev", "//a.test", "", "a.test")
		for _, st := range sc.Steps {
			if st.Op == "req" {
				st.Req.URL = strings.Replace(st.Req.URL, "http://a.test", how, 1)
				st.Req.OpaqueForm, st.Req.DialVia = 0, ""
			}
		}
	}
	// a caller in a retry loop sends the very same request object again
	for i, st := range sc.Steps {
		if st.Op != "req" || st.Req.ReuseReq || !Pct(t, "same"+itoa(int64(i)), 25) {
			continue
		}
		for j := i - 1; j >= 0; j-- {
			p := sc.Steps[j]
			if p.Op == "req" && !p.Req.ReuseReq && p.Req.Method == st.Req.Method && p.Req.URL == st.Req.URL && sameHeader(p.Req.Header, st.Req.Header) && p.Req.EmptyMethod == st.Req.EmptyMethod {
				st.Req.SameObj = j + 1
				break
			}
		}
	}
	return sc
}

func sameHeader(a, b [][2]string) bool {
	if len(a) != len(b) {
		return false
	}
	for i := range a {
		if a[i] != b[i] {
			return false
		}
	}
	return true
}
