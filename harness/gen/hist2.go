package gen

import (
	"strings"

	"pgregory.net/rapid"

	"verif/harness/world"
)

func Backend(t *rapid.T, label string) string {
	return []string{"mem", "fs", "fsenc", "fsopt", "fsencopt"}[Weighted(t, label, 46, 20, 20, 7, 7)]
}

// Equivalent selecting-header spellings the cache documents (and C09 demands hits for):
// identical values, OWS / list-order changes in Accept-Encoding / Accept-Language lists
// without parameters, and the x-gzip alias.
var equivHeaderSpellings = map[string][][]string{
	"Accept-Encoding": {{"gzip, br"}, {"br, gzip"}, {"gzip,br"}, {"x-gzip, br"}, {" gzip ,  br"}},
	"Accept-Language": {{"en, fr"}, {"fr, en"}, {"en,fr"}, {"en", "fr"}, {"en", "fr"}},
	"X-A":             {{"1"}, {"1"}, {"1", "b"}, {"1, b"}},
	"X-Raw":           {{"caf$XE9"}, {"caf$XE9"}, {"na$XEFve $XFF"}},
	"Te":              {{"trailers, deflate"}, {"deflate, trailers"}, {"trailers,deflate"}, {" trailers ,  deflate"}, {"trailers", "deflate"}},
	"Accept":          {{"text/html, application/json"}, {"application/json, text/html"}, {"text/html,application/json"}},
	"Accept-Charset":  {{"a;level=1, a;level=2"}, {"a;level=2, a;level=1"}, {"a;level=2,a;level=1"}},
}

var otherHeaderValues = map[string][]string{
	"Accept-Encoding": {"identity", "deflate"},
	"Accept-Language": {"de", "nl, de"},
	"X-A":             {"2", "3"},
	"X-Raw":           {"caf$XE8", "cafe"},
	"Te":              {"trailers", "gzip"},
	"Accept":          {"text/plain", "*/*"},
	"Accept-Charset":  {"a;level=1", "b"},
}

// C09 generates histories in which stored replies stay fresh and are requested again under
// equivalent spellings, on every backend, with reopen steps.
func C09(t *rapid.T) *world.Scenario {
	sc := &world.Scenario{Prop: "C09", Backend: Backend(t, "backend")}
	h := &Hist{}
	type slot struct {
		res    string
		vary   string
		life   int64
		stored bool
	}
	nres := rapid.IntRange(1, 3).Draw(t, "nres")
	slots := make([]*slot, nres)
	for i := range slots {
		slots[i] = &slot{res: ResourceNames[rapid.IntRange(0, len(ResourceNames)-1).Draw(t, "res"+itoa(int64(i)))]}
		if Pct(t, "rawquery"+itoa(int64(i)), 6) {
			slots[i].res = "r7"
		} else if Pct(t, "exactlen"+itoa(int64(i)), 30) {
			// a URI whose cache key has an exactly drawn length (every length in the range where
			// file names, fragments and other size limits of a backend may sit)
			n := rapid.IntRange(150, 330).Draw(t, "keylen"+itoa(int64(i)))
			switch Weighted(t, "keylenk"+itoa(int64(i)), 75, 10, 15) {
			case 1: // around the default size of buffered readers
				n = rapid.IntRange(3990, 4200).Draw(t, "keylen4k"+itoa(int64(i)))
			case 2:
				n = Pick(t, "keylenbig"+itoa(int64(i)), 1000, 2048, 5000, 8192, 9000, 16500, 33000, 66000)
			}
			slots[i].res = ExactLenResource(n)
		}
		if Pct(t, "vary"+itoa(int64(i)), 35) {
			slots[i].vary = Pick(t, "varyf"+itoa(int64(i)), "Accept-Encoding", "Accept-Language", "X-A", "X-Raw", "Te", "Accept", "Accept-Charset")
		}
	}
	n := rapid.IntRange(2, 10).Draw(t, "steps")
	for i := 0; i < n; i++ {
		lbl := "s" + itoa(int64(i))
		switch Weighted(t, lbl+"-kind", 60, 25, 10, 5, 5) {
		case 4:
			// an unsafe request to another origin whose response names a stored resource in
			// Location / Content-Location (absolute or scheme-relative): only same-origin
			// URIs are invalidated that way
			sl := slots[rapid.IntRange(0, nres-1).Draw(t, lbl+"-fslot")]
			named := Spelling(t, lbl+"-named", sl.res, 50)
			if i := strings.IndexByte(named, '#'); i >= 0 {
				named = named[:i]
			}
			rq := &world.Req{Method: Pick(t, lbl+"-fm", "POST", "PUT", "DELETE", "PATCH"), URL: Pick(t, lbl+"-ft", ForeignTargets...)}
			rp := world.Reply{Kind: "resp", Status: Pick(t, lbl+"-fst", 200, 201, 204, 303), Body: world.Body{Len: 5}, Header: [][2]string{H("Date", "$T+0")}}
			if Pct(t, lbl+"-fnp", 50) {
				named = NetworkPath(named)
			}
			rp.Header = append(rp.Header, H(Pick(t, lbl+"-ffield", "Location", "Content-Location"), named))
			rq.Uncond = rp
			sc.Steps = append(sc.Steps, ReqStep(rq))
			continue
		case 1:
			sc.Steps = append(sc.Steps, SleepStep(SecondsNear(t, lbl+"-dur", h.InPlay)))
			continue
		case 2:
			sc.Steps = append(sc.Steps, world.Step{Op: "reopen"})
			continue
		case 3:
			// a safe request that must not disturb the entry
			sl := slots[rapid.IntRange(0, nres-1).Draw(t, lbl+"-slot")]
			m := Pick(t, lbl+"-safe", "HEAD", "OPTIONS", "GET")
			rq := &world.Req{Method: m, URL: Spelling(t, lbl, sl.res, 50)}
			if m == "GET" {
				rq.Header = append(rq.Header, H("Range", "bytes=0-3"))
			}
			rq.Uncond = world.Reply{Kind: "resp", Status: 200, Body: world.Body{Len: 10}, Header: [][2]string{H("Date", "$T+0"), H("Cache-Control", "max-age=100")}}
			sc.Steps = append(sc.Steps, ReqStep(rq))
			continue
		}
		sl := slots[rapid.IntRange(0, nres-1).Draw(t, lbl+"-slot")]
		rq := &world.Req{Method: "GET", URL: Spelling(t, lbl, sl.res, 60)}
		if sl.vary != "" {
			if Pct(t, lbl+"-samevariant", 75) {
				sp := equivHeaderSpellings[sl.vary]
				for _, v := range sp[rapid.IntRange(0, len(sp)-1).Draw(t, lbl+"-hsp")] {
					rq.Header = append(rq.Header, H(sl.vary, v))
				}
			} else {
				rq.Header = append(rq.Header, H(sl.vary, Pick(t, lbl+"-other", otherHeaderValues[sl.vary]...)))
			}
		}
		MaybeOddForm(t, lbl+"-odd", rq, 3)
		if Pct(t, lbl+"-nomethod", 4) {
			rq.EmptyMethod = true // Method "" is how net/http spells GET
		}
		if Pct(t, lbl+"-via2", 12) {
			rq.Via2 = true // a second transport, open on the same store
		}
		if Pct(t, lbl+"-emptyrange", 3) {
			rq.Header = append(rq.Header, H("Range", "")) // present but empty: no range request
		}
		rp, _ := StorableReply(t, h, lbl+"-rp")
		if sl.vary != "" {
			rp.Header = append(rp.Header, H("Vary", sl.vary))
		}
		if Pct(t, lbl+"-bodyclass", 25) {
			// bodies that look like what the entry format itself consists of
			rp.Body = world.Body{Len: Pick(t, lbl+"-bodylen", 40, 150, 400, 3000), Class: Pick(t, lbl+"-bodycls", "httpish", "meta", "crlf", "nul", "rand"), Seed: uint64(rapid.IntRange(0, 300).Draw(t, lbl+"-bodyseed"))}
		}
		rq.Uncond = rp
		rq.Cond = Simple304()
		sc.Steps = append(sc.Steps, ReqStep(rq))
	}
	return sc
}

// C08 generates histories in which entries go stale and are validated, in the foreground and
// under stale-while-revalidate, with 304 header updates, full replacements and two variants.
func C08(t *rapid.T) *world.Scenario {
	sc := &world.Scenario{Prop: "C08", Backend: "mem"}
	if Pct(t, "fs", 20) {
		sc.Backend = "fs"
	}
	h := &Hist{}
	u := "http://a.test/c08"
	if Pct(t, "latefamily", 12) {
		return c08Late304(t, sc, u)
	}
	if Pct(t, "gridfamily", 10) {
		return c08Grid(t, sc, u)
	}
	if Pct(t, "duringfamily", 8) {
		return c08During(t, sc, u)
	}
	withVary := Pct(t, "vary", 50)
	n := rapid.IntRange(3, 10).Draw(t, "steps")
	lifeNow := int64(10)
	for i := 0; i < n; i++ {
		lbl := "s" + itoa(int64(i))
		if i > 0 && Pct(t, lbl+"-sleep", 50) {
			sc.Steps = append(sc.Steps, SleepStep(SecondsNear(t, lbl+"-dur", append([]int64{lifeNow}, h.InPlay...))))
			continue
		}
		rq := &world.Req{Method: "GET", URL: u}
		if withVary {
			rq.Header = append(rq.Header, H("X-A", Pick(t, lbl+"-xa", "1", "1", "2")))
		}
		if Pct(t, lbl+"-rnc", 10) {
			// an end-to-end reload: validated in the foreground even while a background
			// revalidation of the same entry is in flight
			rq.Header = append(rq.Header, H("Cache-Control", "no-cache"))
		}
		life := Pick(t, lbl+"-life", int64(1), 5, 10, 60)
		lifeNow = life
		h.Note(life)
		cc := []string{"max-age=" + itoa(life)}
		if Pct(t, lbl+"-swr", 40) {
			w := Pick(t, lbl+"-swrw", int64(5), 60, 3600)
			h.Note(life + w)
			cc = append(cc, "stale-while-revalidate="+itoa(w))
		}
		full := world.Reply{Kind: "resp", Status: 200, Body: world.Body{Len: rapid.IntRange(8, 80).Draw(t, lbl+"-blen")},
			Header: [][2]string{H("Date", "$T+0"), H("Cache-Control", JoinCC(cc)), H("X-Gen", "g$S")}}
		if Pct(t, lbl+"-etag", 85) {
			full.Header = append(full.Header, H("Etag", `"v$S"`))
		} else {
			// (in any of the three HTTP-date layouts: the validator is the field value as it is)
			full.Header = append(full.Header, H("Last-Modified", Pick(t, lbl+"-lmfmt", "$T-777", "$T-777", "$R-777", "$A-777")))
		}
		if withVary && Pct(t, lbl+"-hasvary", 90) {
			full.Header = append(full.Header, H("Vary", "X-A"))
		}
		if Pct(t, lbl+"-qnc", 12) {
			// a field the cache must not replay without validation - but it stays stored, and a
			// 304 that does not mention it does not remove it
			full.Header[1] = H("Cache-Control", JoinCC(append(cc, `no-cache="X-Priv"`)))
			full.Header = append(full.Header, H("X-Priv", "priv$S"))
		}
		rq.Uncond = full
		switch Weighted(t, lbl+"-ans", 55, 35, 10) {
		case 0:
			nl := Pick(t, lbl+"-nlife", int64(1), 5, 10, 60, 600)
			h.Note(nl)
			ncc := []string{"max-age=" + itoa(nl)}
			if Pct(t, lbl+"-nswr", 30) {
				ncc = append(ncc, "stale-while-revalidate=60")
			}
			r304 := &world.Reply{Kind: "resp", Status: 304, Header: [][2]string{H("Date", "$T+0"), H("Cache-Control", JoinCC(ncc)), H("X-Gen", "g$S")}}
			if Pct(t, lbl+"-multiline", 25) {
				// the same directives spread over several field lines, and a multi-line field
				r304.Header = [][2]string{H("Date", "$T+0"), H("Cache-Control", "public"), H("X-Gen", "g$S"), H("X-Two", "a$S"), H("X-Two", "b$S")}
				for _, d := range ncc {
					r304.Header = append(r304.Header, H("Cache-Control", d))
				}
			}
			if Pct(t, lbl+"-newetag", 30) {
				r304.Header = append(r304.Header, H("Etag", `"v$S"`))
			}
			if Pct(t, lbl+"-boguscl", 30) {
				r304.Header = append(r304.Header, H("Content-Length", "12345"))
			}
			if Pct(t, lbl+"-hop", 30) {
				r304.Header = append(r304.Header, H("Connection", "X-Hop"), H("X-Hop", "hop$S"), H("Keep-Alive", "timeout=5"))
			}
			if withVary {
				r304.Header = append(r304.Header, H("Vary", "X-A"))
			}
			switch Weighted(t, lbl+"-304date", 80, 14, 6) {
			case 1: // an origin without a clock sends no Date: the cache records the time of receipt
				r304.Header = r304.Header[1:]
			case 2:
				r304.Header[0] = H("Date", Pick(t, lbl+"-304dinv", "garbage", "0"))
			}
			rq.Cond = r304
		case 1:
			f2 := full
			f2.Header = append([][2]string(nil), full.Header...)
			f2.Body.Len = full.Body.Len + 3
			rq.Cond = &f2
		case 2:
			rq.Cond = &world.Reply{Kind: "resp", Status: 200, Body: world.Body{Len: 20}, Header: [][2]string{H("Date", "$T+0"), H("Cache-Control", "no-store")}}
		}
		if Pct(t, lbl+"-reuse", 15) {
			// the caller reuses its request object once it has closed the body (possibly while
			// a background validation is still in flight)
			rq.ReuseReq = true
			rq.ReuseDelayNs = Pick(t, lbl+"-reused", int64(0), 0, Sec/2)
		}
		if rq.Cond != nil && Pct(t, lbl+"-bglat", 30) {
			// a slow answer: with stale-while-revalidate the validation is still in flight
			// while the following requests (other variants) are served
			bg := *rq.Cond
			bg.LatencyNs = Pick(t, lbl+"-bglatn", int64(1), 2, 3) * Sec
			rq.Bg = &bg
		}
		sc.Steps = append(sc.Steps, ReqStep(rq))
	}
	return sc
}

// c08During: while the background validation of one variant waits for the origin, other
// variants of the URI are stored (and one may be refreshed). They are all still there when the
// validation result has been written back.
func c08During(t *rapid.T, sc *world.Scenario, u string) *world.Scenario {
	life := Pick(t, "dlife", int64(1), 5, 10)
	lat := Pick(t, "dlat", int64(2), 3, 4)
	mk := func(cc string) world.Reply {
		return world.Reply{Kind: "resp", Status: 200, Body: world.Body{Len: rapid.IntRange(8, 40).Draw(t, "dblen")},
			Header: [][2]string{H("Date", "$T+0"), H("Cache-Control", cc), H("X-Gen", "g$S"), H("Etag", `"v$S"`), H("Vary", "X-A")}}
	}
	get := func(xa string) *world.Req {
		rq := &world.Req{Method: "GET", URL: u, Header: [][2]string{H("X-A", xa)}}
		rq.Uncond = mk("max-age=600")
		rq.Cond = &world.Reply{Kind: "resp", Status: 304, Header: [][2]string{H("Date", "$T+0"), H("Cache-Control", "max-age=600"), H("X-Gen", "g$S"), H("Vary", "X-A")}}
		return rq
	}
	first := get("1")
	first.Uncond = mk("max-age=" + itoa(life) + ", stale-while-revalidate=3600")
	sc.Steps = append(sc.Steps, ReqStep(first))
	if Pct(t, "dpre", 40) {
		// a sibling that exists before the validation starts
		sc.Steps = append(sc.Steps, ReqStep(get("0")))
	}
	sc.Steps = append(sc.Steps, SleepStep(life+Pick(t, "dinto", int64(0), 1, 5)))
	stale := get("1")
	var bg world.Reply
	if Pct(t, "dfull", 40) {
		bg = mk("max-age=600")
	} else {
		bg = *stale.Cond
	}
	bg.LatencyNs = lat * Sec
	stale.Bg = &bg
	sc.Steps = append(sc.Steps, ReqStep(stale))
	// in the meantime
	k := rapid.IntRange(1, 3).Draw(t, "dmean")
	spent := int64(0)
	var others []string
	for i := 0; i < k; i++ {
		lbl := "dm" + itoa(int64(i))
		if spent+1 < lat && Pct(t, lbl+"-sleep", 40) {
			sc.Steps = append(sc.Steps, SleepStep(1))
			spent++
		}
		xa := Pick(t, lbl+"-xa", "2", "3", "2", "0")
		others = append(others, xa)
		sc.Steps = append(sc.Steps, ReqStep(get(xa)))
	}
	sc.Steps = append(sc.Steps, SleepStep(lat-spent+Pick(t, "dafter", int64(1), 5, 60)))
	for i, xa := range others {
		if Pct(t, "dchk"+itoa(int64(i)), 80) {
			sc.Steps = append(sc.Steps, ReqStep(get(xa)))
		}
	}
	sc.Steps = append(sc.Steps, ReqStep(get("1")))
	if Pct(t, "dchk0", 50) {
		sc.Steps = append(sc.Steps, ReqStep(get("0")))
	}
	sc.Note = "during"
	return sc
}

// c08Grid: requests on a 2x2 grid over two nominated fields while the origin's Vary moves
// between them, so that variants with different field sets coexist, are freshened at different
// times and are replaced by full replies (in the foreground and under stale-while-revalidate)
// whose Vary has moved again.
func c08Grid(t *rapid.T, sc *world.Scenario, u string) *world.Scenario {
	n := rapid.IntRange(4, 9).Draw(t, "gsteps")
	for i := 0; i < n; i++ {
		lbl := "g" + itoa(int64(i))
		if i > 0 && Pct(t, lbl+"-sleep", 40) {
			sc.Steps = append(sc.Steps, SleepStep(Pick(t, lbl+"-dur", int64(1), 2, 6, 11)))
			continue
		}
		rq := &world.Req{Method: "GET", URL: u, Header: [][2]string{H("X-A", Pick(t, lbl+"-xa", "1", "2")), H("X-B", Pick(t, lbl+"-xb", "x", "y"))}}
		life := Pick(t, lbl+"-life", int64(1), 5, 10)
		cc := "max-age=" + itoa(life)
		if Pct(t, lbl+"-swr", 60) {
			cc += ", stale-while-revalidate=3600"
		}
		mk := func(l string) world.Reply {
			return world.Reply{Kind: "resp", Status: 200, Body: world.Body{Len: rapid.IntRange(8, 40).Draw(t, l+"-blen")},
				Header: [][2]string{H("Date", "$T+0"), H("Cache-Control", cc), H("X-Gen", "g$S"), H("Etag", `"v$S"`), H("Vary", Pick(t, l+"-vary", "X-A", "X-B", "X-A", "X-B", "X-A, X-B"))}}
		}
		rq.Uncond = mk(lbl + "-u")
		if Pct(t, lbl+"-c304", 45) {
			rq.Cond = &world.Reply{Kind: "resp", Status: 304, Header: [][2]string{H("Date", "$T+0"), H("Cache-Control", cc), H("X-Gen", "g$S")}}
		} else {
			c := mk(lbl + "-c")
			rq.Cond = &c
		}
		sc.Steps = append(sc.Steps, ReqStep(rq))
	}
	return sc
}

// c08Late304: a background validation is still in flight when the entry is replaced in the
// foreground; its late 304 is about the old representation.
func c08Late304(t *rapid.T, sc *world.Scenario, u string) *world.Scenario {
	val := func(lbl string) [][2]string {
		switch Weighted(t, lbl, 40, 40, 20) {
		case 0:
			return [][2]string{H("Last-Modified", "$T-777")}
		case 1:
			return [][2]string{H("Etag", `"v$S"`)}
		}
		return [][2]string{H("Etag", `"v$S"`), H("Last-Modified", "$T-777")}
	}
	mk := func(lbl string, life int64, swr bool) world.Reply {
		cc := "max-age=" + itoa(life)
		if swr {
			cc += ", stale-while-revalidate=600"
		}
		rp := world.Reply{Kind: "resp", Status: 200, Body: world.Body{Len: rapid.IntRange(8, 60).Draw(t, lbl+"-blen")},
			Header: [][2]string{H("Date", "$T+0"), H("Cache-Control", cc), H("X-Gen", "g$S")}}
		rp.Header = append(rp.Header, val(lbl+"-val")...)
		return rp
	}
	first := &world.Req{Method: "GET", URL: u, Uncond: mk("r0", 1, true)}
	sc.Steps = append(sc.Steps, ReqStep(first), SleepStep(Pick(t, "s0", int64(2), 3)))
	// served stale; the background 304 takes a while
	stale := &world.Req{Method: "GET", URL: u, Uncond: mk("r1", 1, true)}
	late := &world.Reply{Kind: "resp", Status: 304, LatencyNs: Pick(t, "lat", int64(2), 3, 4) * Sec,
		Header: [][2]string{H("Date", "$T+0"), H("Cache-Control", "max-age=5, stale-while-revalidate=600"), H("X-Gen", "g$S"), H("X-Old", "old$S")}}
	stale.Bg = late
	stale.Cond = late
	sc.Steps = append(sc.Steps, ReqStep(stale))
	if Pct(t, "gap", 50) {
		sc.Steps = append(sc.Steps, SleepStep(1))
	}
	// an end-to-end reload replaces the entry while the 304 is in flight
	reload := &world.Req{Method: "GET", URL: u, Header: [][2]string{H("Cache-Control", Pick(t, "reload", "no-cache", "max-age=0"))}}
	repl := mk("r2", 600, Pct(t, "replswr", 30))
	if Pct(t, "replbare", 30) {
		// the replacement carries no validator at all, and may demand validation: the late 304
		// is about the representation it replaced, and changes nothing of it
		repl.Header = [][2]string{H("Date", "$T+0"), H("Cache-Control", Pick(t, "replbarecc", "max-age=600", "no-cache", "max-age=600, no-cache", "max-age=0, must-revalidate")), H("X-Gen", "g$S")}
	}
	reload.Uncond, reload.Cond = repl, &repl
	sc.Steps = append(sc.Steps, ReqStep(reload), SleepStep(Pick(t, "s1", int64(4), 5, 10)))
	for i := 0; i < rapid.IntRange(1, 2).Draw(t, "after"); i++ {
		rq := &world.Req{Method: "GET", URL: u, Uncond: mk("r3", 600, false), Cond: Simple304()}
		sc.Steps = append(sc.Steps, ReqStep(rq), SleepStep(1))
	}
	return sc
}

// C06 generates histories dominated by replies that must not be stored.
func C06(t *rapid.T) *world.Scenario {
	sc := &world.Scenario{Prop: "C06", Backend: "mem"}
	h := &Hist{}
	urls := []string{"http://a.test/c06", "http://a.test/c06b"}
	n := rapid.IntRange(2, 9).Draw(t, "steps")
	for i := 0; i < n; i++ {
		lbl := "s" + itoa(int64(i))
		if i > 0 && Pct(t, lbl+"-sleep", 20) {
			sc.Steps = append(sc.Steps, SleepStep(Seconds(t, lbl+"-dur")))
			continue
		}
		rq := &world.Req{Method: "GET", URL: urls[Weighted(t, lbl+"-u", 80, 20)]}
		rp := world.Reply{Kind: "resp", Status: 200, Body: world.Body{Len: 40}, Header: [][2]string{H("Date", "$T+0"), H("X-Mark", "mark$S;")}}
		cc := []string{}
		fresh := func() {
			switch Weighted(t, lbl+"-fresh", 50, 20, 15, 15) {
			case 0:
				cc = append(cc, "max-age="+itoa(Pick(t, lbl+"-ma", int64(0), 60, 3600)))
			case 1:
				rp.Header = append(rp.Header, H("Expires", "$T+600"))
			case 2:
				cc = append(cc, "public")
			case 3:
				rp.Header = append(rp.Header, H("Last-Modified", "$T-10000"))
			}
		}
		switch Weighted(t, lbl+"-class", 14, 12, 12, 10, 10, 10, 10, 10, 12) {
		case 0: // storable control
			fresh()
			if Pct(t, lbl+"-swrctl", 40) {
				cc = []string{"max-age=0", "stale-while-revalidate=3600"}
			}
		case 1: // response no-store
			fresh()
			// (a directive is identified by its token: an argument it does not define does not
			// make it another directive, RFC 9111 §5.2)
			cc = append(cc, Pick(t, lbl+"-nsv", "no-store", "no-store", "no-store", "no-store", "no-store=1", `no-store="true"`, "No-Store"))
			if Pct(t, lbl+"-conncc", 20) {
				// the directive field itself nominated as hop-by-hop: it still governs this hop
				rp.Header = append(rp.Header, H("Connection", Pick(t, lbl+"-connv", "Cache-Control", "cache-control, X-Other", "Expires, Cache-Control")))
			}
		case 2: // request no-store
			fresh()
			rq.Header = append(rq.Header, H("Cache-Control", Pick(t, lbl+"-rns", "no-store", "no-store, max-age=0", "max-stale=5, no-store", `ext="C:\\", no-store`, "no-store=1", `no-store="yes"`, "e1, e2, e3, e4, e5, e6, e7, e8, e9, e10, e11, e12, e13, e14, e15, e16, e17, no-store")))
			if Pct(t, lbl+"-bgfull", 50) {
				// if an earlier entry is served stale under stale-while-revalidate, the refresh
				// fetched for this no-store request must not be stored either
				bg := world.Reply{Kind: "resp", Status: 200, Body: world.Body{Len: 33}, Header: [][2]string{H("Date", "$T+0"), H("Cache-Control", "max-age=600"), H("X-Mark", "mark$S;"), H("Etag", `"v$S"`)}}
				rq.Bg = &bg
			}
		case 3: // other method / Range
			fresh()
			rq.Method = Pick(t, lbl+"-m", "HEAD", "POST", "PUT", "OPTIONS", "GET", "DELETE", "PATCH", "FOO")
			if rq.Method == "GET" {
				rq.Header = append(rq.Header, H("Range", Pick(t, lbl+"-range", "bytes=0-9", "bytes=0-9", "Bytes=0-9", "items=0-1", "lines=1-2")))
				if Pct(t, lbl+"-206", 50) {
					rp.Status = 206
					rp.Header = append(rp.Header, H("Content-Range", "bytes 0-9/40"))
					rp.Body.Len = 10
				}
			}
		case 4: // 206 / 1xx-like / 304 to an unconditional request is impossible for the origin (rule §3.21), so: 206 without Range
			fresh()
			rp.Status = Pick(t, lbl+"-st", 206, 206, 102, 103)
			if rp.Status == 206 {
				rp.Header = append(rp.Header, H("Content-Range", "bytes 0-39/100"))
			}
		case 5: // client's own conditional request answered 304
			fresh()
			rq.Header = append(rq.Header, Pick(t, lbl+"-cond", H("If-None-Match", `"client-etag"`), H("If-Modified-Since", "Sat, 01 Jan 2000 00:00:00 GMT")))
			c304 := &world.Reply{Kind: "resp", Status: 304, Header: [][2]string{H("Date", "$T+0"), H("Etag", `"client-etag"`), H("X-Mark", "mark$S;")}}
			if Pct(t, lbl+"-304cc", 60) {
				c304.Header = append(c304.Header, H("Cache-Control", "max-age=3600"))
			}
			rq.Cond = c304
		case 6: // must-understand with an unassigned status
			fresh()
			cc = append(cc, "must-understand")
			rp.Status = Pick(t, lbl+"-ust", 209, 299, 399, 419, 499, 599, 520)
			if Pct(t, lbl+"-mu-ns", 40) {
				cc = append(cc, "no-store")
			}
		case 7: // no explicit freshness, non-heuristic status
			rp.Status = Pick(t, lbl+"-nst", 201, 202, 302, 303, 307, 400, 401, 403, 500, 502, 503)
			if Pct(t, lbl+"-lm", 40) {
				rp.Header = append(rp.Header, H("Last-Modified", "$T-10000"))
			}
			if rp.Status/100 == 3 {
				rp.Header = append(rp.Header, H("Location", "/c06b"))
			}
		case 8: // body fails at byte k
			fresh()
			rp.Body.Len = Pick(t, lbl+"-blen", 10, 100, 5000)
			rp.Body.FailAt = 1 + rapid.IntRange(0, rp.Body.Len-1).Draw(t, lbl+"-failat")
			rp.Shape = Pick(t, lbl+"-shape", "cl", "chunked", "close")
			if Pct(t, lbl+"-short", 25) {
				// fewer bytes than the Content-Length announces, and a clean end of the stream
				rp.Body.FailAt, rp.Shape = 0, "cl"
				rp.Body.ShortBy = 1 + rapid.IntRange(0, rp.Body.Len-1).Draw(t, lbl+"-shortby")
			}
		}
		if len(cc) > 0 {
			rp.Header = append(rp.Header, CCLines(t, lbl+"-rp", MaybeExt(t, lbl+"-rp", cc, 10))...)
		}
		if Pct(t, lbl+"-etag", 50) {
			rp.Header = append(rp.Header, H("Etag", `"v$S"`))
		}
		rq.Uncond = rp
		if rq.Cond == nil && Pct(t, lbl+"-c304", 50) {
			rq.Cond = Simple304()
			if Pct(t, lbl+"-c304ns", 25) {
				// the validation answer forbids storing: none of its fields reaches the store
				rq.Cond.Header = append(rq.Cond.Header, H("Cache-Control", Pick(t, lbl+"-c304nsv", "no-store", "no-store, max-age=600")), H("X-Mark", "mark$S;"))
			} else if Pct(t, lbl+"-c304mark", 30) {
				rq.Cond.Header = append(rq.Cond.Header, H("X-Mark", "mark$S;"), H("Cache-Control", "max-age=600"))
			}
		}
		if rq.Method == "GET" && Pct(t, lbl+"-nomethod", 6) {
			rq.EmptyMethod = true // Method "" is how net/http spells GET
		}
		_ = h
		sc.Steps = append(sc.Steps, ReqStep(rq))
	}
	return sc
}

// C07 generates histories mixing GETs with unsafe requests.
func C07(t *rapid.T) *world.Scenario {
	sc := &world.Scenario{Prop: "C07", Backend: "mem"}
	h := &Hist{}
	// resources: target r1 (several spellings / variants), r2 same origin, r3 / r4 cross-origin
	fill := func(lbl, res string, hdr [][2]string, vary string) {
		rq := &world.Req{Method: "GET", URL: Spelling(t, lbl, res, 50), Header: hdr}
		rp, _ := StorableReply(t, h, lbl+"-rp")
		// long-lived so that only invalidation can remove it
		rp.Header = [][2]string{H("Date", "$T+0"), H("Cache-Control", "max-age=100000"), H("Etag", `"v$S"`)}
		rp.Status = 200
		if vary != "" {
			rp.Header = append(rp.Header, H("Vary", vary))
		}
		rq.Uncond = rp
		rq.Cond = Simple304()
		sc.Steps = append(sc.Steps, ReqStep(rq))
	}
	withVariants := Pct(t, "variants", 40)
	if withVariants {
		fill("f1a", "r1", [][2]string{H("X-A", "1")}, "X-A")
		fill("f1b", "r1", [][2]string{H("X-A", "2")}, "X-A")
	} else {
		fill("f1", "r1", nil, "")
	}
	if Pct(t, "f2", 70) {
		fill("f2", "r2", nil, "")
	}
	if Pct(t, "f3", 70) {
		fill("f3", "r3", nil, "")
	}
	if Pct(t, "sleep0", 30) {
		sc.Steps = append(sc.Steps, SleepStep(Seconds(t, "sleep0d")%3600))
	}
	if Pct(t, "lostentry", 12) {
		// a stored entry disappears behind the cache's back (LRU clean-up of the cache
		// directory, the maintenance API) while the index still refers to it
		sc.Steps = append(sc.Steps, world.Step{Op: "corrupt", Corrupt: &world.Corrupt{KeySel: rapid.IntRange(0, 7).Draw(t, "lostkey"), Kind: "delete"}})
	}
	nunsafe := rapid.IntRange(1, 2).Draw(t, "nunsafe")
	for i := 0; i < nunsafe; i++ {
		lbl := "u" + itoa(int64(i))
		m := Pick(t, lbl+"-m", "POST", "PUT", "DELETE", "PATCH", "PROPPATCH", "MKCOL", "COPY", "MOVE", "LOCK", "UNLOCK", "ACL", "FOO", "post", "PURGE",
			// method tokens are case-sensitive: these are not GET, HEAD, ... but methods of unknown safety
			"get", "Head", "options", "Trace", "propfind", "Report", "search")
		target := Pick(t, lbl+"-target", "r1", "r1", "r2", "r3")
		rq := &world.Req{Method: m, URL: Spelling(t, lbl, target, 60)}
		if Pct(t, lbl+"-foreign", 12) {
			rq.URL = Pick(t, lbl+"-ftarget", ForeignTargets...)
		}
		MaybeOddForm(t, lbl+"-odd", rq, 4)
		st := Pick(t, lbl+"-st", 200, 201, 204, 301, 303, 200, 204, 400, 404, 409, 500, 503)
		rp := world.Reply{Kind: "resp", Status: st, Body: world.Body{Len: 12}, Header: [][2]string{H("Date", "$T+0")}}
		locs := []string{"", "", "/", "/p/r~1%2Fx?q=1&z=%C3%A9", "p/r~1%2Fx?q=1&z=%C3%A9", "http://a.test/", "http://a.test:80/", "HTTP://A.TEST/p/./r~1%2Fx?q=1&z=%C3%A9",
			"//a.test/", "//a.test/p/r~1%2Fx?q=1&z=%C3%A9", "//A.TEST:80/", "?q=1&z=%C3%A9", "./", "../",
			"https://b.test:8443/a/b;p=1/c", "https://B.TEST:8443/a/b;p=1/c", "https://a.test/", "http://a.test:8080/", "//b.test:8443/a/b;p=1/c",
			// values that are no URI reference at all: they name nothing, and the other field still counts
			"/p/100%zz", "http://a.test:port/", "%", "http://[::1/"}
		if l := Pick(t, lbl+"-loc", locs...); l != "" {
			rp.Header = append(rp.Header, H("Location", l))
		}
		if l := Pick(t, lbl+"-cloc", locs...); l != "" {
			rp.Header = append(rp.Header, H("Content-Location", l))
		}
		if Pct(t, lbl+"-ctxdone", 12) {
			// the caller's context ends before or while the origin answers - and the origin
			// answers all the same: the write happened, so the stored responses are invalid
			rp.IgnoreCtx = true
			if Pct(t, lbl+"-ctxpre", 50) {
				rq.CancelNs = -1
			} else {
				rp.LatencyNs = Sec
				rq.CancelNs = Sec / 2
			}
		}
		rq.Uncond = rp
		sc.Steps = append(sc.Steps, ReqStep(rq))
	}
	// then GETs of all resources (equivalent spellings, both variants)
	k := rapid.IntRange(2, 6).Draw(t, "gets")
	for i := 0; i < k; i++ {
		lbl := "g" + itoa(int64(i))
		res := Pick(t, lbl+"-res", "r1", "r1", "r2", "r3")
		rq := &world.Req{Method: "GET", URL: Spelling(t, lbl, res, 60)}
		if withVariants && res == "r1" {
			rq.Header = append(rq.Header, H("X-A", Pick(t, lbl+"-xa", "1", "2")))
		}
		rq.Uncond = world.Reply{Kind: "resp", Status: 200, Body: world.Body{Len: 12}, Header: [][2]string{H("Date", "$T+0"), H("Cache-Control", "max-age=100000"), H("Etag", `"v$S"`)}}
		if withVariants && res == "r1" {
			rq.Uncond.Header = append(rq.Uncond.Header, H("Vary", "X-A"))
		}
		rq.Cond = Simple304()
		sc.Steps = append(sc.Steps, ReqStep(rq))
	}
	return sc
}

// C11 mixes every production path and lets origin replies carry the cache's own status fields.
func C11(t *rapid.T) *world.Scenario {
	var sc *world.Scenario
	switch Weighted(t, "base", 30, 25, 15, 15, 15) {
	case 0:
		sc = C01(t)
	case 1:
		sc = C02(t)
	case 2:
		sc = C13(t)
	case 3:
		sc = C20(t)
	case 4:
		sc = C08(t)
	}
	sc.Prop = "C11"
	for i, st := range sc.Steps {
		if st.Op != "req" {
			continue
		}
		lbl := "x" + itoa(int64(i))
		if Pct(t, lbl+"-spoof", 25) {
			st.Req.Uncond.Header = append(st.Req.Uncond.Header, H("X-From-Cache", "1"))
		}
		if Pct(t, lbl+"-spoof2", 25) {
			st.Req.Uncond.Header = append(st.Req.Uncond.Header, H("X-Httpcache-Status", Pick(t, lbl+"-sv", "HIT", "STALE", "bogus")))
		}
		if Pct(t, lbl+"-qnc", 8) {
			// a qualified no-cache that names the cache's own fields: those are generated by the
			// cache for this response, not replayed from the origin, so they stay
			for hi, kv := range st.Req.Uncond.Header {
				if kv[0] == "Cache-Control" && !strings.Contains(kv[1], "no-cache") {
					st.Req.Uncond.Header[hi] = H("Cache-Control", kv[1]+Pick(t, lbl+"-qncv", `, no-cache="Age"`, `, no-cache="X-Httpcache-Status, X-From-Cache"`, `, no-cache="age, x-other"`))
				}
			}
		}
		if Pct(t, lbl+"-age", 25) && !hasHeader(st.Req.Uncond.Header, "Age") {
			st.Req.Uncond.Header = append(st.Req.Uncond.Header, H("Age", itoa(Seconds(t, lbl+"-agev"))))
		}
	}
	return sc
}

func hasHeader(h [][2]string, k string) bool {
	for _, kv := range h {
		if kv[0] == k {
			return true
		}
	}
	return false
}
