package gen

import (
	"strings"

	"pgregory.net/rapid"

	"verif/harness/world"
)

// FreshnessReply draws an origin reply exercising every freshness input (C01, C09, C11).
// Canonical spellings only (C12 owns spellings), no Vary (C04 owns it).
func FreshnessReply(t *rapid.T, h *Hist, label string) world.Reply {
	rp := world.Reply{Kind: "resp", Status: 200, Body: world.Body{Len: 32}}
	switch Weighted(t, label+"-status", 70, 15, 15) {
	case 1:
		rp.Status = Pick(t, label+"-hstatus", 203, 204, 300, 301, 308, 404, 405, 410, 414, 501)
	case 2:
		rp.Status = Pick(t, label+"-ostatus", 201, 202, 302, 303, 307, 400, 403, 500, 503)
	}
	var cc []string
	switch Weighted(t, label+"-maxage", 30, 35, 10, 10, 8, 7) {
	case 0: // absent
	case 1:
		n := SecondsNear(t, label+"-ma", h.InPlay)
		h.Note(n)
		cc = append(cc, "max-age="+PadZeros(t, label+"-mapad", itoa(n)))
	case 2:
		cc = append(cc, "max-age=0")
	case 3:
		cc = append(cc, "max-age="+Pick(t, label+"-mahuge", hugeText...))
	case 4:
		cc = append(cc, "max-age="+Pick(t, label+"-mainv", invalidDeltaText...))
	case 5:
		cc = append(cc, "max-age")
	}
	if Pct(t, label+"-public", 15) {
		cc = append(cc, "public")
	}
	if Pct(t, label+"-swr", 20) {
		n := SecondsNear(t, label+"-swrn", h.InPlay)
		h.Note(n)
		cc = append(cc, "stale-while-revalidate="+PadZeros(t, label+"-swrpad", itoa(n)))
	}
	if Pct(t, label+"-imm", 8) {
		cc = append(cc, "immutable")
	}
	if len(cc) > 0 {
		rp.Header = append(rp.Header, H("Cache-Control", JoinCC(cc)))
	}
	// Date
	dateOff := int64(0)
	switch Weighted(t, label+"-date", 55, 15, 10, 10, 10) {
	case 0:
		rp.Header = append(rp.Header, H("Date", "$T+0"))
	case 1:
		dateOff = -Seconds(t, label+"-dateskew")
		rp.Header = append(rp.Header, H("Date", DateOffFmt(t, label+"-f1", dateOff)))
	case 2:
		dateOff = Seconds(t, label+"-datefut")
		rp.Header = append(rp.Header, H("Date", DateOffFmt(t, label+"-f2", dateOff)))
	case 3: // absent
	case 4:
		rp.Header = append(rp.Header, H("Date", Pick(t, label+"-dateinv", "garbage", "0", "Sat, 01 Jan 2000 00:00:00", "2000-01-01T00:00:00Z")))
	}
	// Expires
	switch Weighted(t, label+"-exp", 50, 20, 8, 8, 14) {
	case 0:
	case 1:
		n := SecondsNear(t, label+"-expn", h.InPlay)
		h.Note(n)
		rp.Header = append(rp.Header, H("Expires", DateOffFmt(t, label+"-f3", dateOff+n)))
	case 2:
		rp.Header = append(rp.Header, H("Expires", DateOffFmt(t, label+"-f4", dateOff)))
	case 3:
		rp.Header = append(rp.Header, H("Expires", DateOffFmt(t, label+"-f5", dateOff-Seconds(t, label+"-exppast")-1)))
	case 4:
		rp.Header = append(rp.Header, H("Expires", Pick(t, label+"-expinv", "0", "-1", "never", "Thu, 01 Jan 1970 00:00:00 UTC")))
		if Pct(t, label+"-exp2", 30) {
			// a second field line does not repair the first: Expires is no list
			rp.Header = append(rp.Header, H("Expires", DateOffFmt(t, label+"-f6", dateOff+3600)))
		}
	}
	// Last-Modified
	switch Weighted(t, label+"-lm", 40, 40, 7, 7, 6) {
	case 0:
	case 1:
		n := Pick(t, label+"-lmage", int64(10), 15, 20, 100, 600, 3600, 36000, 86400, 864000)
		h.Note(n / 10)
		rp.Header = append(rp.Header, H("Last-Modified", DateOffFmt(t, label+"-f6", dateOff-n)))
	case 2:
		rp.Header = append(rp.Header, H("Last-Modified", DateOffFmt(t, label+"-f7", dateOff)))
	case 3:
		rp.Header = append(rp.Header, H("Last-Modified", DateOffFmt(t, label+"-f8", dateOff+Seconds(t, label+"-lmfut")+1)))
	case 4:
		rp.Header = append(rp.Header, H("Last-Modified", Pick(t, label+"-lminv", "garbage", "0")))
	}
	// Age
	switch Weighted(t, label+"-age", 60, 8, 14, 6, 6, 6) {
	case 0:
	case 1:
		rp.Header = append(rp.Header, H("Age", "0"))
	case 2:
		n := SecondsNear(t, label+"-agen", h.InPlay)
		rp.Header = append(rp.Header, H("Age", itoa(n)))
	case 3:
		rp.Header = append(rp.Header, H("Age", Pick(t, label+"-ageinv", "-5", "abc", "1.5", "-9223372036854775808")))
	case 4:
		rp.Header = append(rp.Header, H("Age", Pick(t, label+"-agehuge", hugeText...)))
	case 5:
		if Pct(t, label+"-agelist", 50) {
			rp.Header = append(rp.Header, H("Age", "1, 2"))
		} else {
			rp.Header = append(rp.Header, H("Age", "1"), H("Age", "100000"))
		}
	}
	if Pct(t, label+"-etag", 80) {
		rp.Header = append(rp.Header, H("Etag", `"v$S"`))
	}
	if Pct(t, label+"-lat", 20) {
		rp.LatencyNs = SecondsNear(t, label+"-latn", h.InPlay) * Sec
	}
	return rp
}

// RequestCC draws a request Cache-Control value exercising the freshness-related request
// directives ("" = none).
func RequestCC(t *rapid.T, h *Hist, label string) string {
	var cc []string
	switch Weighted(t, label+"-kind", 50, 12, 12, 10, 8, 8) {
	case 0:
		return ""
	case 1:
		cc = append(cc, "max-stale")
	case 2:
		if Pct(t, label+"-msinv", 12) {
			// arguments that are no delta-seconds value (malformed quoting, signs, text)
			cc = append(cc, "max-stale="+Pick(t, label+"-msinvv", `"5`, `"`, `"5\"`, `"5"0"`, "abc", "-1", "1.5", `""`, "5s"))
			break
		}
		cc = append(cc, "max-stale="+PadZeros(t, label+"-mspad", itoa(SecondsNear(t, label+"-ms", h.InPlay))))
	case 3:
		cc = append(cc, "max-age="+PadZeros(t, label+"-rmapad", itoa(SecondsNear(t, label+"-ma", h.InPlay))))
	case 4:
		cc = append(cc, "min-fresh="+itoa(SecondsNear(t, label+"-mf", h.InPlay)))
	case 5:
		cc = append(cc, "only-if-cached")
	}
	if Pct(t, label+"-second", 15) {
		d := Pick(t, label+"-second-d", "max-stale", "max-stale=5", "min-fresh=5", "max-age=3600", "only-if-cached")
		name, _, _ := strings.Cut(d, "=")
		dup := false
		for _, have := range cc {
			hn, _, _ := strings.Cut(have, "=")
			if hn == name {
				dup = true // duplicate directives with different arguments are not meaning-defined
			}
		}
		if !dup {
			cc = append(cc, d)
		}
	}
	return JoinCC(cc)
}

// C01 generates freshness histories on one or two resources.
func C01(t *rapid.T) *world.Scenario {
	sc := &world.Scenario{Prop: "C01", Backend: "mem"}
	h := &Hist{}
	urls := []string{"http://a.test/r1", "http://a.test/r2"}
	n := rapid.IntRange(3, 12).Draw(t, "steps")
	for i := 0; i < n; i++ {
		lbl := "s" + itoa(int64(i))
		if i > 0 && Pct(t, lbl+"-sleep", 45) {
			sc.Steps = append(sc.Steps, SleepStep(SecondsNear(t, lbl+"-dur", h.InPlay)))
			continue
		}
		u := urls[Weighted(t, lbl+"-url", 80, 20)]
		rq := &world.Req{Method: "GET", URL: u}
		if cc := RequestCC(t, h, lbl+"-rcc"); cc != "" {
			rq.Header = append(rq.Header, H("Cache-Control", cc))
		}
		rq.Uncond = FreshnessReply(t, h, lbl+"-u")
		switch Weighted(t, lbl+"-cond", 50, 30, 20) {
		case 0:
			c := FreshnessReply(t, h, lbl+"-c")
			c.Status = 304
			rq.Cond = &c
		case 1:
			rq.Cond = Simple304()
		case 2: // full reply to the conditional request as well
		}
		sc.Steps = append(sc.Steps, ReqStep(rq))
	}
	return sc
}
