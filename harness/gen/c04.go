package gen

import (
	"strings"

	"pgregory.net/rapid"

	"verif/harness/world"
)

var c04Vary = []string{"", "X-A", "X-B", "X-A, X-B", "Accept", "Accept, X-A", "X-Token", "X-A|X-B", "X-B|X-A", "Accept-Encoding|X-A", "|X-A", "x-b ,X-A", "Accept-Encoding", "Accept-Language", "*", "X-A, *", "X-A,X-B", "Authorization", "Authorization, X-A", "Cookie", "User-Agent"}
var c04Pieces = []string{"", "1", "2", "X-A", "X-B", "1X-B2", " 1", "1 ", "a,b", "b, a", "GZIP", "gzip", "x-gzip", "en;q=0.5", "en", ",", "caf$XE9", "caf$XE8", "caf$XC3$XA9", "caf%E9", "caf%e8", "$XEF$XBF$XBD", "636166e9",
	// blanks that are no optional whitespace of HTTP (U+00A0, U+3000, U+0085 in UTF-8: obs-text) at the edge of a member
	"en$XC2$XA0", "$XE3$X80$X80en", "gzip$XC2$X85", "$XC2$XA0"}

// values of fields with a structure of their own (credentials, cookies, product tokens)
var c04Structured = map[string][]string{
	"Authorization": {`Digest realm="api", username="alice", nonce="n1"`, `Digest realm="api", username="bob", nonce="n1"`, `Digest realm="api"`, "Bearer abc", "Bearer abd", "Basic QWxhZGRpbjpvcGVu", "Basic QWxhZGRpbjpvcGVuIHNlc2FtZQ==", "Token a b", "Token a c"},
	"Cookie":        {"sid=1; theme=dark", "sid=2; theme=dark", "sid=1", "theme=dark; sid=1"},
	"User-Agent":    {"curl/8.0", "curl/8.1", "Mozilla/5.0 (X11) A/1", "Mozilla/5.0 (X11) A/2"},
}

// second = the first as a list field's normalisation spells it (members sorted, no blanks); for
// a field without list semantics the two are different values
var c04SamePairs = [][2]string{{"b, a", "a,b"}, {"fr, en", "en,fr"}, {"b,a", "a,b"}, {"gzip, br", "br,gzip"}, {"x, b ,a", "a,b,x"},
	// the alias of a content coding is that coding in Accept-Encoding and another value elsewhere
	{"x-gzip", "gzip"}, {"x-gzip", "gzip"}, {"br, x-gzip", "br,gzip"}, {"x-compress", "compress"}}

// VaryLines renders a Vary pool value: "|" separates field lines (a list field may be split
// over several lines, RFC 9110 §5.3; an empty line is an empty list).
func VaryLines(v string) [][2]string {
	var out [][2]string
	for _, line := range strings.Split(v, "|") {
		out = append(out, H("Vary", line))
	}
	return out
}

func c04Value(t *rapid.T, label string) string {
	n := rapid.IntRange(1, 2).Draw(t, label+"-n")
	v := ""
	for i := 0; i < n; i++ {
		v += Pick(t, label+"-p"+itoa(int64(i)), c04Pieces...)
	}
	return v
}

func c04Headers(t *rapid.T, label string, same *[2]string) [][2]string {
	var h [][2]string
	for _, f := range []string{"Authorization", "Cookie", "User-Agent"} {
		if Pct(t, label+"-has-"+f, 35) {
			h = append(h, H(f, Pick(t, label+"-"+f+"-sv", c04Structured[f]...)))
		}
	}
	if same != nil {
		// the same text (or a spelling of it that only some fields take for the same value)
		// in several selecting fields at once: each field is compared under its own rules
		pr := *same
		for _, f := range []string{"X-A", "X-B", "Accept-Encoding", "Accept-Language"} {
			w := []int{55, 30, 15}
			if strings.HasSuffix(label, "pool0") {
				w = []int{90, 0, 10} // one set spells everything the first way,
			} else if strings.HasSuffix(label, "pool1") {
				w = []int{0, 90, 10} // another one the second way
			}
			switch Weighted(t, label+"-same-"+f, w...) {
			case 0:
				h = append(h, H(f, pr[0]))
			case 1:
				h = append(h, H(f, pr[1]))
			}
		}
		return h
	}
	for _, f := range []string{"X-A", "X-B", "Accept-Encoding", "Accept-Language"} {
		switch Weighted(t, label+"-"+f, 45, 40, 7, 8) {
		case 1:
			h = append(h, H(f, c04Value(t, label+"-"+f+"-v")))
		case 2:
			h = append(h, H(f, ""))
		case 3:
			h = append(h, H(f, c04Value(t, label+"-"+f+"-v1")), H(f, c04Value(t, label+"-"+f+"-v2")))
		}
	}
	return h
}

// c04Reuse: a stale response is served while it is refreshed in the background, and the caller
// reuses its request object (as it may, having closed the body) for another variant while the
// refresh is still under way. What the refresh stores belongs to the variant that was asked for.
func c04Reuse(t *rapid.T) *world.Scenario {
	sc := &world.Scenario{Prop: "C04", Backend: "mem"}
	u := "http://a.test/c04"
	va, vb := Pick(t, "rva", "1", "2", "a,b"), Pick(t, "rvb", "2", "3", "")
	mk := func(lbl, xa string, reuse bool) world.Step {
		rq := &world.Req{Method: "GET", URL: u}
		if xa != "" {
			rq.Header = [][2]string{H("X-A", xa)}
		}
		rp := world.Reply{Kind: "resp", Status: 200, Body: world.Body{Len: 24}, LatencyNs: Pick(t, lbl+"-lat", int64(0), Sec, Sec),
			Header: [][2]string{H("Date", "$T+0"), H("Cache-Control", "max-age=1, stale-while-revalidate=100000"), H("Vary", "X-A")}}
		rp.Header = append(rp.Header, validators(t, lbl+"-val")...)
		rq.Uncond = rp
		c := rp
		rq.Cond = &c
		if Pct(t, lbl+"-304", 30) {
			rq.Cond = Simple304()
			rq.Cond.LatencyNs = rp.LatencyNs
		}
		if reuse {
			rq.ReuseReq = true
			rq.ReuseDelayNs = Pick(t, lbl+"-rd", int64(0), Sec/2, Sec/2)
			rq.ReuseSet = [][2]string{H("X-A", vb)}
		}
		return ReqStep(rq)
	}
	sc.Steps = append(sc.Steps, mk("r0", va, false), SleepStep(5), mk("r1", va, true), SleepStep(3))
	for i := 0; i < rapid.IntRange(1, 3).Draw(t, "rn"); i++ {
		lbl := "r" + itoa(int64(i+2))
		sc.Steps = append(sc.Steps, mk(lbl, Pick(t, lbl+"-xa", vb, vb, va, "reused"), Pct(t, lbl+"-reuse", 30)))
	}
	return sc
}

// C04 generates request histories on one URI with origin replies whose Vary changes over time.
func C04(t *rapid.T) *world.Scenario {
	if Pct(t, "reusefam", 6) {
		return c04Reuse(t)
	}
	sc := &world.Scenario{Prop: "C04", Backend: "mem"}
	u := "http://a.test/c04"
	n := rapid.IntRange(2, 9).Draw(t, "steps")
	// a small pool of header sets so that the same variant is requested again
	pool := make([][][2]string, rapid.IntRange(2, 4).Draw(t, "npool"))
	var same *[2]string
	if Pct(t, "samefam", 10) {
		same = &c04SamePairs[rapid.IntRange(0, len(c04SamePairs)-1).Draw(t, "samev")]
	}
	for i := range pool {
		pool[i] = c04Headers(t, "pool"+itoa(int64(i)), same)
	}
	grid := false
	if same != nil {
		// the pool drawn above is the family
	} else if Pct(t, "grid", 30) {
		// a 2x2 grid over two nominated fields: every pair of requests agrees on one field and
		// differs on the other, while the origin switches between Vary: X-A and Vary: X-B
		grid = true
		pool = [][][2]string{
			{H("X-A", "1"), H("X-B", "x")}, {H("X-A", "1"), H("X-B", "y")},
			{H("X-A", "2"), H("X-B", "x")}, {H("X-A", "2"), H("X-B", "y")},
		}
	} else if Pct(t, "twins", 12) {
		// pairs of values that a lossy or non-injective encoding of the stored value (text
		// encodings, escaping, case folding, trimming) could map to the same thing
		pairs := [][2]string{{"caf$XE9", "caf%E9"}, {"caf$XE9", "caf$XEF$XBF$XBD"}, {"caf$XE9", "caf$XE8"}, {"caf$XE9", "636166e9"},
			{"caf$XE9", "caf\\xe9"}, {"caf$XE9", "caf?"}, {"caf$XE9", "caf$XC3$XA9"}, {"$XC3$XA9", "%C3%A9"}, {"a%2Cb", "a,b"}, {"a\"b", "a%22b"},
			{"$XFF", "$XFE"}, {"$XFF$XFE", "$XFE$XFF"}, {"x$XE9y$XE9", "x$XE9y%E9"},
			// letter case is part of an opaque value
			{"Abc", "abc"}, {"TOKEN-a", "token-A"}, {"sid=AbC", "sid=abc"}}
		pr := pairs[rapid.IntRange(0, len(pairs)-1).Draw(t, "twinpair")]
		f := Pick(t, "twinfield", "X-A", "X-A", "X-B", "Cookie", "User-Agent")
		if Pct(t, "twinweights", 35) {
			// list fields with parameters and weights: members that differ in a parameter are
			// different members; a list that only refuses ("identity;q=0") is not "no field"
			wp := [][3]string{{"Accept", "application/json;version=1, application/json;version=2", "application/json;version=1"},
				{"Accept", "application/json;version=1", "application/json;version=2"}, {"Accept", "text/html;level=1", "text/html;level=2, text/html;level=1"},
				{"Accept-Encoding", "identity;q=0", ""}, {"Accept-Encoding", "gzip;q=0, identity;q=0.0", ""}, {"Accept-Language", "*;q=0", ""},
				// the coding aliases are whole members, not pieces of text
				{"Accept-Encoding", "lx-gzip, identity", "lgzip, identity"}, {"Accept-Encoding", "px-compress", "pcompress"}, {"Accept-Encoding", "x-gzipped", "gzipped"},
				// zero is zero in each of its spellings: a refusal is not the least acceptance
				{"Accept-Encoding", "identity, gzip;q=0.000", "identity, gzip;q=0.001"}, {"Accept-Language", "en, fr;q=0.00", "en, fr;q=0.5"},
				{"Accept", "text/html, */*;q=0.000", "text/html, */*;q=0.001"}, {"Accept-Encoding", "identity, gzip;q=0.00", "identity, gzip"}}
			w := wp[rapid.IntRange(0, len(wp)-1).Draw(t, "twinwp")]
			f, pr = w[0], [2]string{w[1], w[2]}
		}
		if Pct(t, "twincollide", 10) {
			// two values whose variant hashes (64-bit FNV-1a over name NUL value NUL) collide
			f, pr = "X-Token", [2]string{"be3b8f25f564851f", "a4195c504bac54dc"}
		}
		pool = [][][2]string{{H(f, pr[0])}, {H(f, pr[1])}, {H(f, pr[0]), H("X-Z", "1")}}
		if pr[1] == "" {
			pool[1] = [][2]string{H("X-Z", "2")} // the field is absent
		}
	} else if Pct(t, "family", 40) {
		// re-splits of one string: the same characters distributed differently over the
		// nominated fields (an identity derived from undelimited text cannot tell them apart)
		p, q, r := Pick(t, "fp", "1", "a", ""), Pick(t, "fq", "2", "", "b"), Pick(t, "fr", "3", "2", "c")
		sep := Pick(t, "fsep", "X-B", "X-B", "x-b", ",X-B,", "X-B:")
		pool = [][][2]string{
			{H("X-A", p), H("X-B", q+sep+r)},
			{H("X-A", p+sep+q), H("X-B", r)},
			{H("X-A", p+sep+q+sep+r)},
			{H("X-A", p), H("X-B", q)},
			{H("X-A", p+sep+q)},
		}
	}
	for i := 0; i < n; i++ {
		lbl := "s" + itoa(int64(i))
		if i > 0 && Pct(t, lbl+"-sleep", 25) {
			sc.Steps = append(sc.Steps, SleepStep(Pick(t, lbl+"-dur", int64(1), 2, 50, 101)))
			continue
		}
		rq := &world.Req{Method: "GET", URL: u}
		rq.Header = pool[rapid.IntRange(0, len(pool)-1).Draw(t, lbl+"-hs")]
		life := Pick(t, lbl+"-life", int64(1), 1, 100, 100, 100000)
		rp := world.Reply{Kind: "resp", Status: 200, Body: world.Body{Len: 24}, Header: [][2]string{H("Date", "$T+0"), H("Cache-Control", "max-age="+itoa(life)), H("Etag", `"v$S"`)}}
		varyPool := c04Vary
		if grid {
			varyPool = []string{"X-A", "X-B", "X-A", "X-B", "X-A, X-B", ""}
		}
		if same != nil {
			varyPool = []string{"X-A", "Accept-Encoding", "Accept-Encoding, X-A", "X-A, Accept-Encoding", "Accept-Language, X-B", "X-B|Accept-Language", "Accept-Encoding|X-A", "Accept-Language", ""}
		}
		if v := Pick(t, lbl+"-vary", varyPool...); v != "" {
			rp.Header = append(rp.Header, VaryLines(v)...)
		}
		if grid && Pct(t, lbl+"-nocache", 40) {
			// must be validated on every reuse, so the origin can change Vary with a full reply
			rp.Header[1] = H("Cache-Control", "max-age="+itoa(life)+", no-cache")
		}
		if Pct(t, lbl+"-mw", 8) {
			// an upstream that forwards a rewritten copy of the request and reports that copy in
			// Response.Request: the variant is still defined by what the client asked with
			rp.RespReqWithout = Pick(t, lbl+"-mwf", "X-A", "X-B", "Authorization", "Accept-Encoding")
		}
		rq.Uncond = rp
		switch Weighted(t, lbl+"-cond", 30, 25, 25, 20) {
		case 3:
			// the validation is answered with a full reply whose Vary differs
			c := rp
			c.Header = [][2]string{H("Date", "$T+0"), H("Cache-Control", "max-age="+itoa(life)), H("Etag", `"v$S"`)}
			fv := c04Vary
			if grid {
				fv = []string{"X-A", "X-B", "X-A, X-B"}
			}
			if v := Pick(t, lbl+"-fvary", fv...); v != "" {
				c.Header = append(c.Header, VaryLines(v)...)
			}
			rq.Cond = &c
		case 0:
			rq.Cond = Simple304()
		case 1:
			c := Simple304()
			c.Header = append(c.Header, H("Cache-Control", "max-age=100"))
			if v := Pick(t, lbl+"-cvary", c04Vary...); v != "" {
				c.Header = append(c.Header, VaryLines(v)...)
			}
			rq.Cond = c
		}
		sc.Steps = append(sc.Steps, ReqStep(rq))
	}
	if Pct(t, "lostwrites", 10) {
		// store operations that fail (a full disk, a time-out): what the store then holds is
		// still never the wrong variant for a request
		for i := 0; i < rapid.IntRange(1, 2).Draw(t, "nlost"); i++ {
			sc.Faults = append(sc.Faults, world.Fault{At: rapid.IntRange(0, 30).Draw(t, "lostat"+itoa(int64(i))), Kind: Pick(t, "lostkind"+itoa(int64(i)), "err", "err", "notexist")})
		}
	}
	return sc
}

// C19 repeats a finite request alphabet N, 2N, 4N times in a generated order.
func C19(t *rapid.T, n int) *world.Scenario {
	sc := &world.Scenario{Prop: "C19", Backend: "mem"}
	uris := []string{"http://a.test/c19/a", "http://a.test/c19/b", "http://b.test/c19"}[:rapid.IntRange(1, 3).Draw(t, "nuri")]
	combos := [][][2]string{nil, {H("X-A", "1")}, {H("X-A", "2"), H("X-B", "1")}}[:rapid.IntRange(1, 3).Draw(t, "ncombo")]
	if Pct(t, "rawbytes", 25) {
		// a nominated header value with a byte that is not valid UTF-8 (obs-text is legal)
		combos = append(combos, [][2]string{H("X-A", "caf$XE9")})
	}
	varyPool := []string{"", "X-A", "*", "X-A, X-B", "X-B", "X-A, *", "*, X-B", "X-A|X-B", "If-None-Match", "X-A, If-Modified-Since",
		// members that are no field names at all (bytes outside ASCII): legal in a field value
		"*, X-Gr$XF6$XDFe", "X-A, X-Gr$XF6e"}
	nv := rapid.IntRange(1, 3).Draw(t, "nvary")
	varies := make([]string, nv)
	for i := range varies {
		varies[i] = Pick(t, "vary"+itoa(int64(i)), varyPool...)
	}
	type letter struct {
		step world.Step
	}
	var alphabet []world.Step
	for ui, u := range uris {
		for ci, c := range combos {
			lbl := "l" + itoa(int64(ui)) + "-" + itoa(int64(ci))
			rq := &world.Req{Method: "GET", URL: u, Header: c}
			life := Pick(t, lbl+"-life", int64(0), 5, 1000)
			cc := "max-age=" + itoa(life)
			if Pct(t, lbl+"-swr", 30) {
				cc += ", stale-while-revalidate=30"
			}
			rp := world.Reply{Kind: "resp", Status: 200, Body: world.Body{Len: 16}, Header: [][2]string{H("Date", "$T+0"), H("Cache-Control", cc), H("Etag", `"v$S"`)}}
			if v := varies[rapid.IntRange(0, nv-1).Draw(t, lbl+"-v")]; v != "" {
				rp.Header = append(rp.Header, VaryLines(v)...)
			}
			rq.Uncond = rp
			if Pct(t, lbl+"-304", 50) {
				rq.Cond = Simple304()
				if Pct(t, lbl+"-304v", 40) {
					if v := varies[rapid.IntRange(0, nv-1).Draw(t, lbl+"-cv")]; v != "" {
						rq.Cond.Header = append(rq.Cond.Header, VaryLines(v)...)
					}
				}
			}
			alphabet = append(alphabet, ReqStep(rq))
		}
	}
	if Pct(t, "unsafe", 50) {
		rq := &world.Req{Method: Pick(t, "um", "POST", "DELETE", "PUT"), URL: uris[0]}
		rq.Uncond = world.Reply{Kind: "resp", Status: Pick(t, "ust", 200, 204, 500), Body: world.Body{Len: 4}, Header: [][2]string{H("Date", "$T+0")}}
		// same-origin targets named by the response are invalidated as well
		if loc := Pick(t, "uloc", "", "/c19/b", "http://a.test/c19/b", "/c19/a"); loc != "" {
			rq.Uncond.Header = append(rq.Uncond.Header, H(Pick(t, "ulocf", "Location", "Content-Location"), loc))
		}
		alphabet = append(alphabet, ReqStep(rq))
	}
	if Pct(t, "lostentry", 25) {
		// an entry disappears behind the cache's back (clean-up of the cache directory, the
		// maintenance API): what the index still lists must go all the same on invalidation
		alphabet = append(alphabet, world.Step{Op: "corrupt", Corrupt: &world.Corrupt{KeySel: rapid.IntRange(0, 7).Draw(t, "lostkey"), Kind: "delete"}})
	}
	alphabet = append(alphabet, SleepStep(Pick(t, "sl", int64(1), 6, 40)))
	order := make([]int, n)
	for i := range order {
		order[i] = rapid.IntRange(0, len(alphabet)-1).Draw(t, "o"+itoa(int64(i)))
	}
	for rep := 0; rep < 4; rep++ {
		for _, k := range order {
			st := alphabet[k]
			if st.Op == "req" {
				cp := *st.Req
				st.Req = &cp
			}
			sc.Steps = append(sc.Steps, st)
		}
	}
	return sc
}
