package gen

import (
	"strings"

	"pgregory.net/rapid"

	"verif/harness/world"
)

var c05Sizes = []int{0, 1, 2, 3, 10, 100, 1000, 4095, 4096, 4097, 8192, 65535, 65536}
var c05BigSizes = []int{65537, 131072, 1 << 20}

// C05 generates store-then-reuse histories with every framing, body class, size and header shape.
func C05(t *rapid.T, big bool) *world.Scenario {
	sc := &world.Scenario{Prop: "C05", Backend: Backend(t, "backend")}
	// a quarter of the cases deliver the origin's replies as raw bytes through a real http.Transport
	sc.Wire = Pct(t, "wire", 25)
	u := "http://a.test/c05"
	rp := world.Reply{Kind: "resp", Status: Pick(t, "status", 200, 200, 200, 203, 404, 410, 301, 501)}
	rp.Reason = Pick(t, "reason", "", "", "OK", "Weird  Reason", "")
	rp.Shape = Pick(t, "shape", "cl", "cl", "chunked", "close", "http10", "h2", "h2nolen", "nobody")
	sizes := c05Sizes
	if big && Pct(t, "big", 30) {
		sizes = c05BigSizes
	}
	rp.Body = world.Body{Len: Pick(t, "size", sizes...), Class: Pick(t, "class", "", "rand", "crlf", "nul", "httpish", "meta"), Seed: uint64(rapid.IntRange(0, 1000).Draw(t, "seed"))}
	if Pct(t, "exact", 20) {
		rp.Body.Len = rapid.IntRange(0, 5000).Draw(t, "exactlen")
	}
	life := int64(100)
	ccv := "max-age=" + itoa(life)
	if Pct(t, "qualified", 15) {
		// fields named by a qualified no-cache may be withheld on an unvalidated reuse, but a
		// validated one carries them again (and they stay stored)
		ccv += `, no-cache="X-Multi, x-new"`
	}
	rp.Header = [][2]string{H("Cache-Control", ccv), H("Etag", `"v$S"`)}
	switch Weighted(t, "date", 70, 20, 10) {
	case 0:
		// any of the three HTTP-date layouts: the Date the origin sent is what is replayed
		rp.Header = append(rp.Header, H("Date", Pick(t, "datefmt", "$T+0", "$T+0", "$T+0", "$R+0", "$A+0")))
	case 1:
	case 2:
		rp.Header = append(rp.Header, H("Date", "garbage"))
	}
	if rp.Status == 301 {
		rp.Header = append(rp.Header, H("Location", "/moved?x=1"))
	}
	if Pct(t, "multi", 50) {
		rp.Header = append(rp.Header, H("X-Multi", "a"), H("X-Multi", "b, c"), H("X-Multi", "a"))
	}
	if Pct(t, "cookie", 30) {
		rp.Header = append(rp.Header, H("Set-Cookie", "a=1; Path=/"), H("Set-Cookie", "b=2; HttpOnly"))
	}
	if Pct(t, "empty", 30) {
		rp.Header = append(rp.Header, H("X-Empty", ""))
	}
	if Pct(t, "obs", 30) {
		rp.Header = append(rp.Header, H("X-Obs", "café ☕ \"q\" \\ ; , ="))
	}
	if Pct(t, "long", 15) {
		rp.Header = append(rp.Header, H("X-Long", strings.Repeat("v", Pick(t, "longn", 1000, 4000, 8000))))
	}
	if Pct(t, "ctype", 50) {
		rp.Header = append(rp.Header, H("Content-Type", Pick(t, "ctypev", "text/plain; charset=utf-8", "application/octet-stream", "")))
	}
	if Pct(t, "lookalike", 20) {
		rp.Header = append(rp.Header, H("X-Httpcache-Statusx", "HIT"), H("Age-X", "5"))
	}
	// hop-by-hop fields with marker values
	if Pct(t, "hop", 60) {
		for _, f := range []string{"Keep-Alive", "Te", "Upgrade", "Proxy-Authenticate", "Proxy-Authentication-Info", "Proxy-Connection", "Proxy-Authorization"} {
			if Pct(t, "hop-"+f, 35) {
				rp.Header = append(rp.Header, H(f, "hop$S;"))
			}
		}
		switch Weighted(t, "conn", 34, 26, 26, 14) {
		case 3:
			// the nominations spread over several Connection field lines
			rp.Header = append(rp.Header, H("Connection", "keep-alive"), H("Connection", "X-Hop"), H("Connection", "x-other-hop"), H("X-Hop", "hop$S;"), H("X-Other-Hop", "hop$S;"))
		case 1:
			rp.Header = append(rp.Header, H("Connection", "X-Hop"), H("X-Hop", "hop$S;"))
		case 2:
			rp.Header = append(rp.Header, H("Connection", "keep-alive, x-hop ,X-Other-Hop"), H("X-Hop", "hop$S;"), H("X-Other-Hop", "hop$S;"))
		}
	} else if Pct(t, "e2e-named-like-hop", 40) {
		// the same names as ordinary end-to-end fields (not nominated by Connection here)
		rp.Header = append(rp.Header, H("X-Hop", "e2e$S"), H("X-Other-Hop", "e2e$S"))
	}
	if rp.Shape == "chunked" && Pct(t, "trailer", 50) {
		rp.Trailer = [][2]string{H("X-Trailer", "t$S")}
		// a field the Connection field names is hop-by-hop in the trailer section as well
		for _, kv := range rp.Header {
			if kv[0] == "X-Hop" && strings.HasPrefix(kv[1], "hop") && Pct(t, "trailer-hop", 60) {
				rp.Trailer = append(rp.Trailer, H("X-Hop", "hop$S;"))
				break
			}
		}
	}
	if Pct(t, "closeerr", 8) {
		// every byte of the body arrives, and then its Close reports an error
		rp.Body.CloseErr = true
	}
	first := &world.Req{Method: "GET", URL: u, Uncond: rp}
	sc.Steps = append(sc.Steps, ReqStep(first))
	// reuse
	n := rapid.IntRange(1, 3).Draw(t, "reuses")
	for i := 0; i < n; i++ {
		lbl := "r" + itoa(int64(i))
		switch Weighted(t, lbl+"-kind", 55, 15, 30) {
		case 1:
			sc.Steps = append(sc.Steps, world.Step{Op: "reopen"})
		case 2:
			sc.Steps = append(sc.Steps, SleepStep(life+1))
		}
		rq := &world.Req{Method: "GET", URL: u, Uncond: rp}
		switch Weighted(t, lbl+"-client", 70, 15, 15) {
		case 1:
			// the caller keeps the body unread while it issues further requests
			rq.HoldBody = true
		case 2:
			// a forced refetch overwrites the entry (possibly while an earlier body is still unread)
			rq.Header = append(rq.Header, H("Cache-Control", "no-cache"))
			nb := rp
			nb.Header = append([][2]string(nil), rp.Header...)
			nb.Body.Len = Pick(t, lbl+"-newlen", 0, 1, rp.Body.Len/2, rp.Body.Len, rp.Body.Len+7)
			nb.Body.Seed = rp.Body.Seed + 1
			rq.Cond = &nb
			rq.Uncond = nb
		}
		c := &world.Reply{Kind: "resp", Status: 304, Header: [][2]string{H("Date", "$T+0"), H("Cache-Control", ccv)}}
		if rq.Cond != nil {
			sc.Steps = append(sc.Steps, ReqStep(rq))
			continue
		}
		if Pct(t, lbl+"-upd", 50) {
			c.Header = append(c.Header, H("X-Multi", "z"), H("X-New", "n$S"), H("Content-Length", "999"), H("Keep-Alive", "hop$S;"))
		}
		if Pct(t, lbl+"-conn304", 25) {
			// the 304 travelled over a connection of its own: what its Connection field names is
			// hop-by-hop on that hop only, and says nothing about the stored response's fields
			cv := Pick(t, lbl+"-conn304v", "X-Hop", "x-multi, X-Hop", "X-Other-Hop, close", "Content-Type, Set-Cookie", "X-Obs", "keep-alive|X-Hop")
			for _, line := range strings.Split(cv, "|") {
				c.Header = append(c.Header, H("Connection", line))
			}
			if strings.Contains(cv, "X-Hop") && Pct(t, lbl+"-conn304f", 50) {
				c.Header = append(c.Header, H("X-Hop", "hop$S;"))
			}
		}
		rq.Cond = c
		sc.Steps = append(sc.Steps, ReqStep(rq))
	}
	return sc
}
