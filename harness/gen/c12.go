package gen

import (
	"strings"

	"pgregory.net/rapid"

	"verif/harness/world"
)

func isTChar(c byte) bool {
	switch {
	case c >= 'a' && c <= 'z', c >= 'A' && c <= 'Z', c >= '0' && c <= '9':
		return true
	}
	return strings.IndexByte("!#$%&'*+-.^_`|~", c) >= 0
}

func isToken(s string) bool {
	if s == "" {
		return false
	}
	for i := 0; i < len(s); i++ {
		if !isTChar(s[i]) {
			return false
		}
	}
	return true
}

var c12Extensions = []string{"foo", "foo=bar", `foo="a, b"`, "x-no-store", "no-storex", `foo="no-store"`, `bar="must-revalidate, no-cache"`, "community=\"UCI\"", `baz="\"no-store"`, "no-transform", "s-maxage",
	`x-only-if-cached=1`, `ext="only-if-cached"`, "only-if-cachedx", `foo="max-age=0"`, "xmax-stale=5", `ext="no-cache, only-if-cached"`}

var c12Huge = []string{"2147483648", "2147483649", "4294967296", "9007199254740992", "9223372036", "9223372037", "9223372036854775807", "9223372036854775808", "18446744073709551616", "1000000000000000000000000000000"}

// splitCanonical splits a canonical single-line value ("a, b=1, c=\"x, y\"") into directives.
func splitCanonical(v string) []string {
	var out []string
	var cur strings.Builder
	inQ := false
	for i := 0; i < len(v); i++ {
		c := v[i]
		switch {
		case c == '"':
			inQ = !inQ
			cur.WriteByte(c)
		case c == ',' && !inQ:
			out = append(out, strings.TrimSpace(cur.String()))
			cur.Reset()
		default:
			cur.WriteByte(c)
		}
	}
	if s := strings.TrimSpace(cur.String()); s != "" {
		out = append(out, s)
	}
	return out
}

// Respell rewrites one canonical Cache-Control value into 1-3 field lines with the same
// meaning (RFC 9111 §5.2, RFC 9110 §5.3, §5.6.1, §5.6.4). kinds receives the rewrite kinds used.
func Respell(t *rapid.T, label, v string, kinds map[string]bool, allowHuge bool) []string {
	ds := splitCanonical(v)
	grammatical := true
	for i, d := range ds {
		name, arg, has := strings.Cut(d, "=")
		if !isToken(name) {
			grammatical = false
			continue
		}
		okArg := !has || isToken(arg) || (len(arg) >= 2 && arg[0] == '"' && arg[len(arg)-1] == '"')
		if !okArg {
			grammatical = false
			continue
		}
		// letter case of the name
		if Pct(t, label+"-case"+itoa(int64(i)), 50) {
			b := []byte(name)
			for j := range b {
				if Pct(t, label+"-c"+itoa(int64(i))+"-"+itoa(int64(j)), 50) {
					if b[j] >= 'a' && b[j] <= 'z' {
						b[j] -= 32
					}
				}
			}
			if string(b) != name {
				kinds["case"] = true
			}
			name = string(b)
		}
		if has && isToken(arg) {
			// numeric class: anything >= 2^31 is as good as 2147483648
			if allowHuge && arg == "2147483648" && Pct(t, label+"-huge"+itoa(int64(i)), 70) {
				arg = Pick(t, label+"-hugev"+itoa(int64(i)), c12Huge...)
				kinds["huge-number"] = true
			}
			if allDigits(arg) && Pct(t, label+"-zp"+itoa(int64(i)), 12) {
				// leading zeros do not change a delta-seconds value
				arg = strings.Repeat("0", Pick(t, label+"-zpn"+itoa(int64(i)), 1, 4, 9, 15)) + arg
				kinds["leading-zeros"] = true
			}
			switch Weighted(t, label+"-q"+itoa(int64(i)), 55, 35, 10) {
			case 1:
				arg = `"` + arg + `"`
				kinds["quoted-arg"] = true
			case 2:
				// quoted-pair in front of the last character
				arg = `"` + arg[:len(arg)-1] + `\` + arg[len(arg)-1:] + `"`
				kinds["quoted-pair"] = true
			}
		} else if has && strings.HasPrefix(arg, `"`) && strings.EqualFold(name, "no-cache") {
			// field names are case-insensitive
			if Pct(t, label+"-fn"+itoa(int64(i)), 50) {
				arg = strings.ToLower(arg)
				kinds["field-name-case"] = true
			}
		}
		if has {
			ds[i] = name + "=" + arg
		} else {
			ds[i] = name
		}
	}
	if !grammatical {
		return []string{v} // not a value the grammar gives a meaning to: left alone
	}
	// unknown extensions
	for k := rapid.IntRange(0, 2).Draw(t, label+"-next"); k > 0; k-- {
		ext := Pick(t, label+"-ext"+itoa(int64(k)), c12Extensions...)
		pos := rapid.IntRange(0, len(ds)).Draw(t, label+"-extpos"+itoa(int64(k)))
		ds = append(ds[:pos], append([]string{ext}, ds[pos:]...)...)
		kinds["extension"] = true
	}
	// order
	if len(ds) > 1 && Pct(t, label+"-perm", 50) {
		p := rapid.Permutation(ds).Draw(t, label+"-order")
		if strings.Join(p, ",") != strings.Join(ds, ",") {
			kinds["order"] = true
		}
		ds = p
	}
	// split over field lines
	nlines := 1
	if len(ds) > 1 {
		nlines = Pick(t, label+"-nlines", 1, 1, 2, 3)
	}
	if nlines > len(ds) {
		nlines = len(ds)
	}
	if nlines > 1 {
		kinds["field-lines"] = true
	}
	lines := make([][]string, nlines)
	for i, d := range ds {
		li := 0
		if nlines > 1 {
			li = i * nlines / len(ds)
		}
		lines[li] = append(lines[li], d)
	}
	seps := []string{", ", ",", " , ", ",\t", " ,  ", ",,", ", ,", ",\t,"}
	out := make([]string, 0, nlines)
	for li, ln := range lines {
		var b strings.Builder
		if Pct(t, label+"-lead"+itoa(int64(li)), 15) {
			b.WriteString(",")
			kinds["empty-element"] = true
		}
		for i, d := range ln {
			if i > 0 {
				sep := Pick(t, label+"-sep"+itoa(int64(li))+"-"+itoa(int64(i)), seps...)
				if sep != ", " {
					if strings.Count(sep, ",") > 1 {
						kinds["empty-element"] = true
					} else {
						kinds["ows"] = true
					}
				}
				b.WriteString(sep)
			}
			b.WriteString(d)
		}
		if Pct(t, label+"-trail"+itoa(int64(li)), 15) {
			b.WriteString(" ,")
			kinds["empty-element"] = true
		}
		out = append(out, b.String())
	}
	// an empty field line (or one holding only separators) adds no list element
	if Pct(t, label+"-emptyline", 12) {
		e := Pick(t, label+"-emptylinev", "", "", ",", " ", ", ,")
		if Pct(t, label+"-emptyfirst", 60) {
			out = append([]string{e}, out...)
		} else {
			out = append(out, e)
		}
		kinds["empty-field-line"] = true
	}
	return out
}

func allDigits(s string) bool {
	if s == "" {
		return false
	}
	for i := 0; i < len(s); i++ {
		if s[i] < '0' || s[i] > '9' {
			return false
		}
	}
	return true
}

func respellHeader(t *rapid.T, label string, h [][2]string, kinds map[string]bool, allowHuge bool) [][2]string {
	var out [][2]string
	for i, kv := range h {
		if kv[0] != "Cache-Control" {
			out = append(out, kv)
			continue
		}
		for _, ln := range Respell(t, label+"-"+itoa(int64(i)), kv[1], kinds, allowHuge) {
			out = append(out, H("Cache-Control", ln))
		}
	}
	return out
}

func cloneReply(r *world.Reply) *world.Reply {
	if r == nil {
		return nil
	}
	c := *r
	c.Header = append([][2]string(nil), r.Header...)
	return &c
}

// C12 draws a canonical history and a twin in which every Cache-Control value is respelled.
func C12(t *rapid.T) *world.Scenario {
	var sc *world.Scenario
	switch Weighted(t, "base", 30, 30, 20, 10, 10) {
	case 0:
		sc = C01(t)
	case 1:
		sc = C02(t)
	case 2:
		sc = C06(t)
	case 3:
		sc = C13(t)
	case 4:
		sc = C20(t)
	}
	sc.Prop = "C12"
	// twins are compared exchange by exchange: nothing in the base history may depend on the
	// order of simultaneous events (a streamed background body ends between two requests)
	for _, st := range sc.Steps {
		if st.Op == "req" && st.Req.Bg != nil {
			st.Req.Bg.Body.PauseAt = 0
		}
	}
	// The rewrites below preserve meaning only for well-formed lists: a quoted string that
	// never closes swallows whatever follows it, so moving it moves the damage. The
	// malformed arguments of the C01 generator become a plain invalid token here.
	for _, st := range sc.Steps {
		if st.Op != "req" {
			continue
		}
		for hi, kv := range st.Req.Header {
			if kv[0] == "Cache-Control" {
				v := kv[1]
				for _, bad := range []string{`max-stale="5"0"`, `max-stale="5\"`, `max-stale="5`, `max-stale="`} {
					if strings.Contains(v, bad) && !strings.Contains(v, bad+`"`) {
						v = strings.Replace(v, bad, "max-stale=abc", 1)
					}
				}
				st.Req.Header[hi] = H("Cache-Control", v)
			}
		}
	}
	// A repeated directive means its first occurrence (RFC 9111 §4.2.1), so a reordering
	// respelling would change the meaning: later repetitions are dropped here - except for
	// no-cache, whose unqualified form prevails whatever the order.
	dedupe := func(v string) string {
		seen := map[string]bool{}
		var keep []string
		for _, d := range splitCanonical(v) {
			name, _, _ := strings.Cut(d, "=")
			name = strings.ToLower(strings.TrimSpace(name))
			if seen[name] && name != "no-cache" {
				continue
			}
			seen[name] = true
			keep = append(keep, d)
		}
		return JoinCC(keep)
	}
	for _, st := range sc.Steps {
		if st.Op != "req" {
			continue
		}
		for hi, kv := range st.Req.Header {
			if kv[0] == "Cache-Control" {
				st.Req.Header[hi] = H("Cache-Control", dedupe(kv[1]))
			}
		}
		for _, rp := range []*world.Reply{&st.Req.Uncond, st.Req.Cond, st.Req.Bg} {
			if rp == nil {
				continue
			}
			for hi, kv := range rp.Header {
				if kv[0] == "Cache-Control" {
					rp.Header[hi] = H("Cache-Control", dedupe(kv[1]))
				}
			}
		}
	}
	// Values >= 2^31 are interchangeable only while every age in the history stays below
	// 2^31 s: no other ten-digit number (Age, max-stale, ...) may be in play.
	allowHuge := !hasLongNumber(sc)
	// numeric class: some lifetimes become 2147483648 in the canonical history
	for si, st := range sc.Steps {
		if st.Op != "req" || !allowHuge || !Pct(t, "mk31-"+itoa(int64(si)), 15) {
			continue
		}
		for hi, kv := range st.Req.Uncond.Header {
			if kv[0] == "Cache-Control" && strings.Contains(kv[1], "max-age=") {
				ds := splitCanonical(kv[1])
				for di, d := range ds {
					if strings.HasPrefix(d, "max-age=") {
						ds[di] = "max-age=2147483648"
					}
				}
				st.Req.Uncond.Header[hi] = H("Cache-Control", JoinCC(ds))
			}
		}
	}
	twin := &world.Scenario{Prop: "C12", Backend: sc.Backend, Logger: sc.Logger, SWRSet: sc.SWRSet, SWRNs: sc.SWRNs, Faults: sc.Faults}
	kinds := map[string]bool{}
	for si, st := range sc.Steps {
		ns := st
		if st.Op == "req" {
			lbl := "rs" + itoa(int64(si))
			rq := *st.Req
			rq.Header = respellHeader(t, lbl+"-rq", st.Req.Header, kinds, allowHuge)
			hasCC := false
			for _, kv := range rq.Header {
				if kv[0] == "Cache-Control" {
					hasCC = true
				}
			}
			if !hasCC && Pct(t, lbl+"-extonly", 12) {
				// a Cache-Control field that consists of unknown extensions only says nothing
				// a cache understands: the request is the request without it
				rq.Header = append(append([][2]string(nil), rq.Header...), H("Cache-Control", Pick(t, lbl+"-extonlyv", c12Extensions...)))
				kinds["extension-only"] = true
			}
			u := cloneReply(&st.Req.Uncond)
			u.Header = respellHeader(t, lbl+"-u", st.Req.Uncond.Header, kinds, allowHuge)
			rq.Uncond = *u
			if st.Req.Cond != nil {
				c := cloneReply(st.Req.Cond)
				c.Header = respellHeader(t, lbl+"-c", st.Req.Cond.Header, kinds, allowHuge)
				rq.Cond = c
			}
			if st.Req.Bg != nil {
				c := cloneReply(st.Req.Bg)
				c.Header = respellHeader(t, lbl+"-b", st.Req.Bg.Header, kinds, allowHuge)
				rq.Bg = c
			}
			ns.Req = &rq
		}
		twin.Steps = append(twin.Steps, ns)
	}
	var ks []string
	for k := range kinds {
		ks = append(ks, k)
	}
	// deterministic order for the note
	for i := 0; i < len(ks); i++ {
		for j := i + 1; j < len(ks); j++ {
			if ks[j] < ks[i] {
				ks[i], ks[j] = ks[j], ks[i]
			}
		}
	}
	twin.Note = strings.Join(ks, ",")
	sc.Twin = twin
	return sc
}

func hasLongNumber(sc *world.Scenario) bool {
	long := func(h [][2]string) bool {
		for _, kv := range h {
			run := 0
			for i := 0; i < len(kv[1]); i++ {
				if kv[1][i] >= '0' && kv[1][i] <= '9' {
					run++
					if run >= 10 {
						return true
					}
				} else {
					run = 0
				}
			}
		}
		return false
	}
	for _, st := range sc.Steps {
		if st.Op != "req" {
			continue
		}
		if long(st.Req.Header) || long(st.Req.Uncond.Header) {
			return true
		}
		if st.Req.Cond != nil && long(st.Req.Cond.Header) {
			return true
		}
		if st.Req.Bg != nil && long(st.Req.Bg.Header) {
			return true
		}
	}
	return false
}
