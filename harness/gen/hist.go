package gen

import (
	"strconv"
	"strings"

	"pgregory.net/rapid"

	"verif/harness/world"
)

// EquivSpellings lists strict-NF-equivalent spellings of the pool resources (RFC 3986
// §6.2.2-6.2.3 rewrites only). Index 0 is the canonical spelling.
var EquivSpellings = map[string][]string{
	"r1": {
		"http://a.test/p/r~1%2Fx?q=1&z=%C3%A9",
		"HTTP://A.Test/p/r~1%2Fx?q=1&z=%C3%A9",
		"http://a.test:80/p/r~1%2Fx?q=1&z=%C3%A9",
		"http://a.test/p/./r~1%2Fx?q=1&z=%C3%A9",
		"http://a.test/p/y/../r~1%2Fx?q=1&z=%C3%A9",
		"http://a.test/%70/r%7E1%2fx?q=1&z=%c3%a9",
		"http://a.test/p/r~1%2Fx?q=1&z=%C3%A9#frag",
		"http://a.test/p/r%7e%31%2Fx?q=%31&z=%C3%A9",
		"http://a.test/p/%2E/r~1%2Fx?q=1&z=%C3%A9",
		"http://a.test/p/y/%2e%2E/r~1%2Fx?q=1&z=%C3%A9",
		"http://a.test/p/y/.%2e/r~1%2Fx?q=1&z=%C3%A9",
	},
	"r2": {
		"http://a.test/",
		"http://a.test",
		"http://A.TEST:80/",
		"http://a.test/.",
		"http://a.test/x/..",
		"http://a.test/%2e",
		"http://a.test/x/%2E%2e",
		"http://a.test/#f",
	},
	"r3": {
		"https://b.test:8443/a/b;p=1/c",
		"HTTPS://B.TEST:8443/a/b;p=1/c",
		"https://b.test:8443/a/./b;p=1/c",
		"https://b.test:8443/a/b;p=1/d/../c",
		"https://b.test:8443/%61/b;p=1/c",
		"https://b.test:8443/a/%2e/b;p=1/d/%2E%2E/c",
	},
	"r4": {
		"https://b.test/long/" + strings.Repeat("seg/", 40) + "end",
		"https://b.test:443/long/" + strings.Repeat("seg/", 40) + "end",
		"HTTPS://b.test/long/" + strings.Repeat("seg/", 40) + "./end",
	},
}

var ResourceNames = []string{"r1", "r2", "r3", "r4", "r5", "r6"}

// ForeignTargets are targets of unsafe requests on origins where nothing is stored (one per scheme).
var ForeignTargets = []string{"http://c.test/unsafe", "https://c.test:8443/unsafe", "https://c.test/unsafe", "http://a.test:8080/unsafe", "https://a.test/unsafe"}

// NetworkPath returns the scheme-relative form ("//host/path?query") of an absolute URI.
func NetworkPath(u string) string {
	if i := strings.Index(u, "://"); i >= 0 {
		return u[i+1:]
	}
	return u
}

func init() {
	// r5: a URI whose cache key is exactly 216 bytes (a whole number of 48-character base64
	// fragments, longer than one file name): the file-system backend's naming boundary
	base := "http://a.test/k216/"
	pad := strings.Repeat("x", 216-len(base))
	EquivSpellings["r5"] = []string{base + pad, "HTTP://A.TEST:80/k216/" + pad, "http://a.test/k216/./" + pad}
	// r6: a link-local literal with a zone identifier - a host whose decoded text
	// ("[fe80::1%eth0]") does not parse again
	// r7: bytes in the query that a Go client can put there by hand and that end up in the cache
	// key as they are (a raw blank, a tab-free but quote- and backslash-laden value)
	EquivSpellings["r7"] = []string{"http://a.test/s?q=red shoes&x=a\"b\\c", "HTTP://A.TEST:80/s?q=red shoes&x=a\"b\\c", "http://a.test/./s?q=red shoes&x=a\"b\\c"}
	EquivSpellings["r6"] = []string{"http://[fe80::1%25eth0]:8080/z/x?q=1", "HTTP://[FE80::1%25eth0]:8080/z/x?q=1", "http://[fe80::1%25eth0]:8080/z/./x?q=1",
		"http://[fe80::1%25eth0]:8080/z/y/../x?q=1", "http://[fe80::1%25eth0]:8080/%7A/x?q=1"}
}

// ExactLenResource registers (once) a resource whose canonical URI is exactly n bytes long.
func ExactLenResource(n int) string {
	name := "len" + itoa(int64(n))
	if _, ok := EquivSpellings[name]; !ok {
		base := "http://a.test/k/"
		pad := strings.Repeat("y", n-len(base))
		EquivSpellings[name] = []string{base + pad, "HTTP://A.TEST:80/k/" + pad, "http://a.test/k/./" + pad}
	}
	return name
}

func Spelling(t *rapid.T, label, res string, equivPct int) string {
	sp := EquivSpellings[res]
	if Pct(t, label+"-eq", equivPct) {
		return sp[rapid.IntRange(0, len(sp)-1).Draw(t, label+"-sp")]
	}
	return sp[0]
}

// StorableReply draws a reply that is surely storable with an explicit or heuristic lifetime
// of `life` seconds (returned), canonical spellings.
func StorableReply(t *rapid.T, h *Hist, label string) (world.Reply, int64) {
	rp := world.Reply{Kind: "resp", Status: 200, Body: world.Body{Len: rapid.IntRange(0, 200).Draw(t, label+"-blen")}}
	var life int64
	switch Weighted(t, label+"-kind", 50, 25, 25) {
	case 0:
		life = Pick(t, label+"-life", int64(5), 10, 60, 61, 600, 3600, 86400, 31536000)
		cc := []string{"max-age=" + itoa(life)}
		if Pct(t, label+"-pub", 20) {
			cc = append(cc, "public")
		}
		if Pct(t, label+"-huge", 10) {
			hv := Pick(t, label+"-hugev", hugeText...)
			cc = []string{"max-age=" + hv}
			life = 1 << 31
		}
		rp.Header = append(rp.Header, H("Cache-Control", JoinCC(cc)))
		if Pct(t, label+"-nodate", 25) {
			// no Date from the origin: the cache records the time it received the response
		} else {
			rp.Header = append(rp.Header, H("Date", "$T+0"))
		}
	case 1:
		life = Pick(t, label+"-life", int64(5), 10, 60, 600, 3600, 86400)
		rp.Header = append(rp.Header, H("Date", "$T+0"), H("Expires", DateOff(life)))
	case 2:
		rp.Status = Pick(t, label+"-hstatus", 200, 203, 301, 308, 404, 405, 410, 414, 501)
		lmAge := Pick(t, label+"-lmage", int64(100), 600, 3600, 86400, 864000, 31536000, 946684800, 1262304000)
		life = lmAge / 10
		rp.Header = append(rp.Header, H("Date", "$T+0"), H("Last-Modified", DateOff(-lmAge)))
		if rp.Status == 301 || rp.Status == 308 {
			rp.Header = append(rp.Header, H("Location", "/elsewhere"))
		}
	}
	if Pct(t, label+"-etag", 70) {
		rp.Header = append(rp.Header, H("Etag", `"v$S"`))
	}
	h.Note(life)
	return rp, life
}

// ---------------------------------------------------------------------------
// C02 / C18

func validators(t *rapid.T, label string) [][2]string {
	switch Weighted(t, label, 40, 20, 25, 15) {
	case 0:
		return [][2]string{H("Etag", `"v$S"`)}
	case 1:
		return [][2]string{H("Last-Modified", Pick(t, label+"-lmfmt", "$T-100000", "$T-100000", "$R-100000", "$A-100000"))}
	case 2:
		return [][2]string{H("Etag", `"v$S"`), H("Last-Modified", Pick(t, label+"-lmfmt", "$T-100000", "$T-100000", "$R-100000", "$A-100000"))}
	}
	return nil
}

// ExtDirectives are extension directives (RFC 9111 §5.2.3: unknown ones are ignored) whose
// arguments are hard to tokenise - quoted commas, escaped quotes, a quoted string that ends in
// an escaped backslash - and a list long enough to hit any cap on the number of members. None
// of them may change how the directives after them are read.
var ExtDirectives = []string{`ext="a\", must-revalidate, \"b"`, `ext="\", stale-if-error=600, \""`, `ext="\", no-store, \""`, `ext="\", max-age=0, \"", ext3`, `ext="a\"b"`, `ext="a\",b"`, `ext="x, no-cache"`, `ext="C:\\"`, `ext="\\\\"`, `ext="\\", ext2="y"`,
	"e1, e2=2, e3, e4=\"4\", e5, e6, e7, e8, e9, e10, e11, e12, e13, e14, e15, e16, e17, e18",
	"e1, e1, e1, e1, e1, e1, e1, e1, e1, e1, e1, e1, e1, e1, e1, e1, e1",
	// long lists: no limit on the number of members is part of the grammar
	manyExt(33), manyExt(70), manyExt(300)}

func manyExt(n int) string {
	var b strings.Builder
	for i := 1; i <= n; i++ {
		if i > 1 {
			b.WriteString(", ")
		}
		b.WriteString("x" + strconv.Itoa(i))
	}
	return b.String()
}

// MaybeExt puts an extension directive in front of a directive list now and then.
func MaybeExt(t *rapid.T, label string, cc []string, pct int) []string {
	if Pct(t, label+"-ext", pct) {
		return append([]string{Pick(t, label+"-extv", ExtDirectives...)}, cc...)
	}
	return cc
}

// MaybeDup repeats directives now and then. For a repeated directive the first occurrence is
// the one in force (RFC 9111 §4.2.1: first occurrence, or the response is stale), so later
// occurrences with longer lifetimes / weaker demands must change nothing; an unqualified
// no-cache stays unqualified next to a qualified one, in either order.
func MaybeDup(t *rapid.T, label string, cc []string) []string {
	if !Pct(t, label+"-dup", 6) {
		return cc
	}
	out := append([]string(nil), cc...)
	for _, d := range cc {
		name, _, _ := strings.Cut(d, "=")
		switch name {
		case "max-age", "stale-while-revalidate", "stale-if-error":
			if Pct(t, label+"-dup-"+name, 60) {
				out = append(out, name+"="+Pick(t, label+"-dupv-"+name, "86400", "100000", "31536000"))
			}
		case "no-cache":
			if d == "no-cache" {
				if Pct(t, label+"-dupnc", 50) {
					out = append(out, `no-cache="X-Secret"`)
				} else {
					out = append([]string{`no-cache="X-Other"`}, out...)
				}
			}
		}
	}
	if Pct(t, label+"-dupline", 30) && len(out) > len(cc) {
		// (callers join with ", "; a separate field line is the same list)
		return out
	}
	return out
}

func storedDirectives(t *rapid.T, h *Hist, label string) (cc []string, life int64) {
	defer func() { cc = MaybeExt(t, label+"-sd", MaybeDup(t, label+"-sd", cc), 7) }()
	life = Pick(t, label+"-life", int64(0), 1, 10, 60, 3600)
	h.Note(life)
	if Pct(t, label+"-hasma", 90) {
		cc = append(cc, "max-age="+PadZeros(t, label+"-mapad", itoa(life)))
	} else {
		life = 0
	}
	switch Weighted(t, label+"-nc", 60, 20, 12, 8) {
	case 1:
		cc = append(cc, "no-cache")
	case 2:
		cc = append(cc, `no-cache="X-Secret"`)
	case 3:
		cc = append(cc, `no-cache="X-Secret, x-other"`)
	}
	if len(cc) > 0 && cc[len(cc)-1] == "no-cache" && Pct(t, label+"-ncempty", 15) {
		// every spelling of a no-cache with an empty field list is a plain no-cache
		cc[len(cc)-1] = Pick(t, label+"-ncemptyv", `no-cache=","`, `no-cache=" , "`, `no-cache=" "`, `no-cache=""`)
	}
	if Pct(t, label+"-mr", 30) {
		cc = append(cc, "must-revalidate")
	}
	if Pct(t, label+"-swr", 35) {
		n := Pick(t, label+"-swrn", int64(0), 1, 10, 60, 3600)
		h.Note(life + n)
		cc = append(cc, "stale-while-revalidate="+itoa(n))
	}
	if Pct(t, label+"-sie", 30) {
		n := Pick(t, label+"-sien", int64(0), 1, 10, 60, 3600)
		h.Note(life + n)
		cc = append(cc, "stale-if-error="+itoa(n))
	}
	if Pct(t, label+"-imm", 20) {
		cc = append(cc, "immutable")
	}
	if Pct(t, label+"-pub", 10) {
		cc = append(cc, "public")
	}
	return cc, life
}

func requestDirectives(t *rapid.T, h *Hist, label string, forceOIC bool) string {
	var cc []string
	cc = MaybeExt(t, label, cc, 10)
	if forceOIC {
		// a directive is identified by its token (RFC 9111 §5.2); an argument it does not
		// define does not make it another directive
		cc = append(cc, Pick(t, label+"-oicv", "only-if-cached", "only-if-cached", "only-if-cached", "only-if-cached", "only-if-cached", "only-if-cached", "only-if-cached=1", `Only-If-Cached="1"`))
	}
	if Pct(t, label+"-nc", 25) {
		cc = append(cc, "no-cache")
	}
	switch Weighted(t, label+"-ma", 55, 15, 30) {
	case 1:
		cc = append(cc, "max-age="+PadZeros(t, label+"-ma0pad", "0"))
	case 2:
		cc = append(cc, "max-age="+PadZeros(t, label+"-manpad", itoa(SecondsNear(t, label+"-man", h.InPlay))))
	}
	switch Weighted(t, label+"-ms", 60, 20, 20) {
	case 1:
		cc = append(cc, "max-stale")
	case 2:
		cc = append(cc, "max-stale="+itoa(SecondsNear(t, label+"-msn", h.InPlay)))
	}
	if Pct(t, label+"-mf", 10) {
		cc = append(cc, "min-fresh="+itoa(SecondsNear(t, label+"-mfn", h.InPlay)))
	}
	if !forceOIC && Pct(t, label+"-oic", 12) {
		cc = append(cc, "only-if-cached")
	}
	if Pct(t, label+"-sie", 15) {
		cc = append(cc, "stale-if-error="+itoa(SecondsNear(t, label+"-sien", h.InPlay)))
	}
	return JoinCC(cc)
}

// validationAnswer draws the origin's answer to a conditional request.
func validationAnswer(t *rapid.T, h *Hist, label string) *world.Reply {
	switch Weighted(t, label, 40, 25, 15, 20) {
	case 0:
		rp := &world.Reply{Kind: "resp", Status: 304, Header: [][2]string{H("Date", "$T+0")}}
		if Pct(t, label+"-upd", 50) {
			n := Pick(t, label+"-newma", int64(0), 10, 60, 3600)
			h.Note(n)
			rp.Header = append(rp.Header, H("Cache-Control", "max-age="+itoa(n)))
			if Pct(t, label+"-upd2", 25) {
				// the new directives spread over two field lines: all of them replace the stored ones
				rp.Header = append(rp.Header, H("Cache-Control", Pick(t, label+"-upd2v", "no-cache", "must-revalidate", "no-cache=\"X-Secret\"", "private")))
			}
		}
		if Pct(t, label+"-etag", 30) {
			rp.Header = append(rp.Header, H("Etag", `"v$S"`))
		}
		return rp
	case 1:
		n := Pick(t, label+"-fullma", int64(0), 10, 60, 3600)
		return &world.Reply{Kind: "resp", Status: 200, Header: [][2]string{H("Cache-Control", "max-age="+itoa(n)), H("Date", "$T+0"), H("Etag", `"v$S"`)}, Body: world.Body{Len: 40}}
	case 2:
		st := Pick(t, label+"-5xx", 500, 502, 503, 504, 501, 404)
		return &world.Reply{Kind: "resp", Status: st, Header: [][2]string{H("Date", "$T+0"), H("Cache-Control", "no-store")}, Body: world.Body{Len: 20}}
	}
	return &world.Reply{Kind: "err"}
}

// expiresInstead now and then expresses the lifetime of a reply as Expires - Date instead of
// max-age, with a Date that is ahead of or behind the cache's clock (the lifetime is the
// distance between two readings of the origin's clock, whatever the cache's own clock says).
func expiresInstead(t *rapid.T, label string, cc []string, life int64, rp *world.Reply) []string {
	if !Pct(t, label+"-exp", 12) {
		return cc
	}
	var out []string
	had := false
	for _, d := range cc {
		if strings.HasPrefix(d, "max-age=") {
			had = true
			continue
		}
		out = append(out, d)
	}
	if !had {
		return cc
	}
	skew := Pick(t, label+"-skew", int64(-3600), -60, -1, 0, 1, 60, 3600)
	for i, kv := range rp.Header {
		if kv[0] == "Date" {
			rp.Header[i] = H("Date", DateOff(skew))
		}
	}
	rp.Header = append(rp.Header, H("Expires", DateOff(skew+life)))
	return out
}

func c02like(t *rapid.T, prop string, forceOIC bool) *world.Scenario {
	sc := &world.Scenario{Prop: prop, Backend: "mem"}
	h := &Hist{}
	u := "http://a.test/c02"
	// stored response
	cc, life := storedDirectives(t, h, "st")
	first := &world.Req{Method: "GET", URL: u}
	first.Uncond = world.Reply{Kind: "resp", Status: 200, Body: world.Body{Len: 48},
		Header: [][2]string{H("Date", "$T+0"), H("X-Secret", "mark$S;"), H("X-Other", "mark$S;"), H("X-Plain", "p$S")}}
	cc = expiresInstead(t, "st", cc, life, &first.Uncond)
	if len(cc) > 0 {
		first.Uncond.Header = append(first.Uncond.Header, CCLines(t, "st", cc)...)
	}
	first.Uncond.Header = append(first.Uncond.Header, validators(t, "val")...)
	first.Cond = validationAnswer(t, h, "a0")
	if !forceOIC || Pct(t, "nonempty", 85) {
		sc.Steps = append(sc.Steps, ReqStep(first))
	}
	n := rapid.IntRange(1, 4).Draw(t, "more")
	for i := 0; i < n; i++ {
		lbl := "m" + itoa(int64(i))
		var d int64
		switch Weighted(t, lbl+"-when", 30, 40, 30) {
		case 0:
			d = 0
		case 1:
			d = SecondsNear(t, lbl+"-d", append([]int64{life}, h.InPlay...))
		case 2:
			d = Seconds(t, lbl+"-dp")
		}
		if d > 0 {
			sc.Steps = append(sc.Steps, SleepStep(d))
		}
		rq := &world.Req{Method: "GET", URL: u}
		if v := requestDirectives(t, h, lbl+"-rq", forceOIC && i == n-1); v != "" {
			switch Weighted(t, lbl+"-rqshape", 86, 7, 7) {
			case 1:
				// an empty field line in front (an empty list element, RFC 9110 §5.6.1)
				rq.Header = append(rq.Header, H("Cache-Control", ""), H("Cache-Control", v))
			case 2:
				// the HTTP/1.0 twin of no-cache: without meaning when Cache-Control is present
				// (RFC 9111 §5.4)
				rq.Header = append(rq.Header, H("Pragma", "no-cache"), H("Cache-Control", ""), H("Cache-Control", v))
			default:
				rq.Header = append(rq.Header, H("Cache-Control", v))
			}
		}
		switch Weighted(t, lbl+"-extra", 84, 8, 8) {
		case 1:
			// the client's own conditional request (its copy has another entity tag)
			rq.Header = append(rq.Header, H("If-None-Match", Pick(t, lbl+"-cinm", `"client-copy"`, `"v999"`)))
		case 2:
			// a Range field that is present but empty is no range request
			if forceOIC {
				rq.Header = append(rq.Header, H("Range", ""))
			}
		}
		// an unconditional miss yields a new storable-or-not reply
		ncc, nlife := storedDirectives(t, h, lbl+"-st")
		rq.Uncond = world.Reply{Kind: "resp", Status: 200, Body: world.Body{Len: 48},
			Header: [][2]string{H("Date", "$T+0"), H("X-Secret", "mark$S;"), H("X-Other", "mark$S;"), H("X-Plain", "p$S")}}
		ncc = expiresInstead(t, lbl+"-st", ncc, nlife, &rq.Uncond)
		if len(ncc) > 0 {
			rq.Uncond.Header = append(rq.Uncond.Header, CCLines(t, lbl+"-st", ncc)...)
		}
		rq.Uncond.Header = append(rq.Uncond.Header, validators(t, lbl+"-val")...)
		rq.Cond = validationAnswer(t, h, lbl+"-a")
		sc.Steps = append(sc.Steps, ReqStep(rq))
	}
	return sc
}

func C02(t *rapid.T) *world.Scenario { return c02like(t, "C02", false) }

// C18 adds store states that C02 does not have: other variant only, Vary: *, corrupted entry,
// failing store.
func C18(t *rapid.T) *world.Scenario {
	sc := c02like(t, "C18", true)
	if last := sc.Steps[len(sc.Steps)-1]; last.Op == "req" {
		switch Weighted(t, "oicform", 84, 6, 5, 5) {
		case 1:
			last.Req.Method = Pick(t, "oicmethod", "HEAD", "HEAD", "POST", "OPTIONS", "FOO")
		case 2:
			last.Req.Header = append(last.Req.Header, H("Range", "bytes=0-9"))
		case 3:
			last.Req.EmptyMethod = true
		}
	}
	if last := sc.Steps[len(sc.Steps)-1]; last.Op == "req" && Pct(t, "reqbody", 8) {
		last.Req.BodyLen = Pick(t, "reqbodylen", 1, 5, 5000) // a GET may carry content; it is still a GET
	}
	if last := sc.Steps[len(sc.Steps)-1]; last.Op == "req" && Pct(t, "reqconn", 8) {
		// hop-by-hop bookkeeping on the client's own request (a Connection field that names
		// other request fields, as a proxy-style caller may leave it): the directive is still
		// the client's instruction to this cache
		last.Req.Header = append(last.Req.Header, H("Connection", Pick(t, "reqconnv", "Cache-Control", "cache-control", "keep-alive, Cache-Control", "close", "Pragma, Cache-Control")))
	}
	switch Weighted(t, "state", 60, 12, 10, 10, 8) {
	case 1: // other variant only
		for _, st := range sc.Steps[:1] {
			if st.Op == "req" {
				st.Req.Header = append(st.Req.Header, H("X-A", "1"))
				st.Req.Uncond.Header = append(st.Req.Uncond.Header, H("Vary", "X-A"))
			}
		}
		last := sc.Steps[len(sc.Steps)-1].Req
		last.Header = append(last.Header, H("X-A", Pick(t, "xa", "1", "2", "")))
	case 2: // Vary: *
		if sc.Steps[0].Op == "req" {
			sc.Steps[0].Req.Uncond.Header = append(sc.Steps[0].Req.Uncond.Header, H("Vary", "*"))
		}
	case 3: // corrupted entry or index before the last request
		c := world.Step{Op: "corrupt", Corrupt: &world.Corrupt{KeySel: rapid.IntRange(0, 3).Draw(t, "ksel"),
			Kind: Pick(t, "ckind", "trunc", "flip", "empty", "const", "delete"), Arg: rapid.IntRange(0, 400).Draw(t, "carg"),
			Data: Pick(t, "cdata", "null", "[null]", "[]", "{}", "garbage")}}
		last := len(sc.Steps) - 1
		sc.Steps = append(sc.Steps[:last], append([]world.Step{c}, sc.Steps[last:]...)...)
	case 4: // failing store
		sc.Faults = append(sc.Faults, world.Fault{At: rapid.IntRange(0, 12).Draw(t, "fat"), Kind: Pick(t, "fkind", "err", "notexist", "trunc", "empty")})
	}
	return sc
}

// ---------------------------------------------------------------------------
// C13

func C13(t *rapid.T) *world.Scenario {
	sc := &world.Scenario{Prop: "C13", Backend: "mem"}
	u := "http://a.test/c13"
	life := Pick(t, "life", int64(0), 1, 10, 60)
	win := Pick(t, "win", int64(0), 1, 5, 30, 60, 3600)
	place := Weighted(t, "place", 30, 20, 15, 15, 20) // stored | request | both | neither | only the error reply
	cc := []string{"max-age=" + itoa(life)}
	if place == 0 || place == 2 {
		cc = append(cc, "stale-if-error="+itoa(win))
	}
	if Pct(t, "mr", 15) {
		cc = append(cc, "must-revalidate")
	}
	if Pct(t, "nc", 10) {
		cc = append(cc, "no-cache")
	} else if Pct(t, "ncq", 10) {
		cc = append(cc, `no-cache="X-Secret"`)
	}
	first := &world.Req{Method: "GET", URL: u}
	first.Uncond = world.Reply{Kind: "resp", Status: 200, Body: world.Body{Len: 30},
		Header: [][2]string{H("Date", "$T+0"), H("Cache-Control", JoinCC(cc)), H("Etag", `"v$S"`), H("X-Secret", "mark$S;")}}
	if Pct(t, "lm", 30) {
		first.Uncond.Header = append(first.Uncond.Header, H("Last-Modified", "$T-5000"))
	}
	if Pct(t, "nodate", 15) {
		// an origin without a clock: the cache records the time of receipt (in GMT, whatever
		// the local time zone of the process)
		first.Uncond.Header = first.Uncond.Header[1:]
	}
	if Pct(t, "lat", 15) {
		first.Uncond.LatencyNs = Pick(t, "latn", int64(1), 2, 10) * Sec
	}
	sc.Steps = append(sc.Steps, ReqStep(first))
	rounds := rapid.IntRange(1, 3).Draw(t, "rounds")
	for i := 0; i < rounds; i++ {
		lbl := "r" + itoa(int64(i))
		// staleness around the window boundary
		off := Pick(t, lbl+"-off", int64(-2), -1, 0, 1, 2, 10)
		d := life + win + off
		if Pct(t, lbl+"-early", 15) {
			d = life + Pick(t, lbl+"-e", int64(0), 1)
		}
		if i > 0 {
			d = Pick(t, lbl+"-again", int64(0), 1, 5)
		}
		if d < 0 {
			d = 0
		}
		if d > 0 {
			sc.Steps = append(sc.Steps, SleepStep(d))
		}
		rq := &world.Req{Method: "GET", URL: u}
		var rcc []string
		if place == 1 || place == 2 {
			w2 := win
			if place == 2 && Pct(t, lbl+"-w2", 60) {
				// another window on the request: the larger of the two decides
				w2 = Pick(t, lbl+"-w2v", int64(0), 1, 5, 30, 60, 3600, 100000, 100000)
			}
			rcc = append(rcc, "stale-if-error="+itoa(w2))
		}
		if Pct(t, lbl+"-rnc", 10) {
			rcc = append(rcc, "no-cache")
		}
		if Pct(t, lbl+"-rma", 20) {
			// a reload-style request: the window is still judged on the stored response's own age
			rcc = append(rcc, "max-age="+itoa(Pick(t, lbl+"-rmav", int64(0), 0, 1, life)))
		}
		if len(rcc) > 0 {
			rq.Header = append(rq.Header, H("Cache-Control", JoinCC(rcc)))
		}
		rq.Uncond = world.Reply{Kind: "resp", Status: 200, Body: world.Body{Len: 30}, Header: [][2]string{H("Date", "$T+0"), H("Cache-Control", "max-age=5"), H("Etag", `"v$S"`)}}
		fail := &world.Reply{Kind: "err"}
		switch Weighted(t, lbl+"-fail", 25, 40, 15, 10, 10) {
		case 4:
			// the origin never answers: the call fails when the caller's deadline expires
			fail = &world.Reply{Kind: "hang"}
			rq.DeadlineNs = Pick(t, lbl+"-dl", int64(1), 3) * Sec
		case 1:
			fail = &world.Reply{Kind: "resp", Status: Pick(t, lbl+"-st", 500, 502, 503, 504), Body: world.Body{Len: 10}, Header: [][2]string{H("Date", "$T+0")}}
			if Pct(t, lbl+"-stall", 25) {
				// the status line and header arrive, then the origin stops sending: a response the
				// cache drops must not be waited for (the caller's own deadline ends the read of
				// one that is handed on)
				fail.Body.StallAt = Pick(t, lbl+"-stallat", 1, 5)
				rq.DeadlineNs = 30 * Sec
			}
		case 2:
			fail = &world.Reply{Kind: "resp", Status: Pick(t, lbl+"-st2", 400, 403, 404, 429, 501, 505, 507, 599), Body: world.Body{Len: 10}, Header: [][2]string{H("Date", "$T+0")}}
		case 3:
			fail = Simple304()
		}
		if fail.Kind == "resp" && fail.Status >= 400 && (place == 4 || Pct(t, lbl+"-esie", 20)) {
			fail.Header = append(fail.Header, H("Cache-Control", "stale-if-error="+itoa(win)))
		}
		if fail.Kind == "resp" && fail.Status >= 400 && Pct(t, lbl+"-ehdr", 30) {
			// what error replies of real origins and gateways carry besides the status
			switch Weighted(t, lbl+"-ehdrk", 40, 20, 20, 20) {
			case 0:
				fail.Header = append(fail.Header, H("Retry-After", Pick(t, lbl+"-ra", "120", "0", "$T+60")))
			case 1:
				fail.Header = append(fail.Header, H("Connection", "close"), H("Content-Type", "text/html"))
			case 2:
				fail.Header = append(fail.Header, H("Retry-After", "5"), H("Etag", `"err$S"`), H("Vary", "Accept-Encoding"))
			case 3:
				fail.Header = append(fail.Header, H("Via", "1.1 gw"), H("Warning", `111 - "Revalidation Failed"`), H("Age", "7"))
			}
		}
		rq.Cond = fail
		sc.Steps = append(sc.Steps, ReqStep(rq))
	}
	return sc
}

// ---------------------------------------------------------------------------
// C20

// c20Many: a burst of stale hits while the origin answers no revalidation at all: however many
// background requests are outstanding, the next caller is served at once.
func c20Many(t *rapid.T) *world.Scenario {
	sc := &world.Scenario{Prop: "C20", Backend: "mem"}
	nurl := Pick(t, "murls", 1, 1, 3, 40)
	burst := Pick(t, "mburst", 33, 40, 70, 130, 300)
	mk := func(i int, hang bool) world.Step {
		rq := &world.Req{Method: "GET", URL: "http://a.test/c20/m" + itoa(int64(i%nurl))}
		rq.Uncond = world.Reply{Kind: "resp", Status: 200, Body: world.Body{Len: 30}, Header: [][2]string{H("Date", "$T+0"),
			H("Cache-Control", "max-age=1, stale-while-revalidate=100000"), H("Etag", `"v$S"`)}}
		rq.Cond = Simple304()
		if hang {
			rq.Bg = &world.Reply{Kind: "hang"}
		}
		return ReqStep(rq)
	}
	for i := 0; i < nurl; i++ {
		sc.Steps = append(sc.Steps, mk(i, false))
	}
	sc.Steps = append(sc.Steps, SleepStep(3))
	for i := 0; i < burst; i++ {
		sc.Steps = append(sc.Steps, mk(i, true))
	}
	return sc
}

func C20(t *rapid.T) *world.Scenario {
	if Pct(t, "many", 3) {
		return c20Many(t)
	}
	sc := &world.Scenario{Prop: "C20", Backend: "mem"}
	u := "http://a.test/c20"
	T := int64(5)
	switch Weighted(t, "swrset", 35, 10, 10, 8, 15, 12, 10) {
	case 1:
		sc.SWRSet, sc.SWRNs = true, -1*Sec
	case 2:
		sc.SWRSet, sc.SWRNs = true, 0
	case 3:
		sc.SWRSet, sc.SWRNs = true, 1 // 1ns
		T = 0
	case 4:
		sc.SWRSet, sc.SWRNs = true, 1*Sec
		T = 1
	case 5:
		sc.SWRSet, sc.SWRNs = true, 5*Sec
	case 6:
		sc.SWRSet, sc.SWRNs = true, 3600*Sec
		T = 3600
	}
	if sc.SWRSet && Pct(t, "swrpre", 25) {
		// an option list that sets the timeout more than once: the last setting decides
		sc.SWRPre = []int64{Pick(t, "swrprev", 30*Sec, 3600*Sec, 1, 2*Sec)}
	}
	life := Pick(t, "life", int64(0), 1, 10, 60)
	win := Pick(t, "win", int64(2), 10, 60, 3600, 100000)
	first := &world.Req{Method: "GET", URL: u}
	c20cc := "max-age=" + itoa(life) + ", stale-while-revalidate=" + itoa(win)
	if Pct(t, "qualified", 15) {
		// fields withheld from the stale response still serve as validators of the revalidation
		c20cc += Pick(t, "qualifiedv", `, no-cache="ETag"`, `, no-cache="Last-Modified"`, `, no-cache="etag, last-modified"`, `, no-cache="X-Other"`)
	}
	first.Uncond = world.Reply{Kind: "resp", Status: 200, Body: world.Body{Len: 30},
		Header: [][2]string{H("Date", "$T+0"), H("Cache-Control", c20cc)}}
	first.Uncond.Header = append(first.Uncond.Header, validators(t, "val")...)
	sc.Steps = append(sc.Steps, ReqStep(first))
	serves := rapid.IntRange(1, 3).Draw(t, "serves")
	for i := 0; i < serves; i++ {
		lbl := "s" + itoa(int64(i))
		d := life + Pick(t, lbl+"-into", int64(0), 1)
		if i > 0 {
			d = Pick(t, lbl+"-gap", int64(0), 1, T, T+1, 2*T+1)
		}
		if d > 0 {
			sc.Steps = append(sc.Steps, SleepStep(d))
		}
		rq := &world.Req{Method: "GET", URL: u}
		switch Weighted(t, lbl+"-cancel", 60, 10, 20, 10) {
		case 3:
			// the caller's own deadline lies beyond the revalidation timeout: it must not replace it
			rq.DeadlineNs = (T + Pick(t, lbl+"-dl", int64(1), 10, 3600)) * Sec
		case 1:
			rq.CancelNs = -1
		case 2:
			rq.CancelNs = Pick(t, lbl+"-cn", int64(1), 2, T, T+1) * Sec
			if rq.CancelNs == 0 {
				rq.CancelNs = 1
			}
		}
		if Pct(t, lbl+"-legacy", 15) {
			// the caller's cancellation expressed through Request.Cancel (http.Client does that for
			// its Timeout when the transport is not its own): closed once the caller is done
			rq.LegacyCancel = Pick(t, lbl+"-legacyv", "pre", "post", "post", "open")
		}
		var lat int64
		kind := "resp"
		switch Weighted(t, lbl+"-lat", 25, 15, 12, 12, 12, 12, 12) {
		case 1:
			lat = 1 * Sec
		case 2:
			lat = (T - 1) * Sec
		case 3:
			lat = T * Sec
		case 4:
			lat = (T + 1) * Sec
		case 5:
			lat = 10*T*Sec + Sec
		case 6:
			kind = "hang"
		}
		if lat < 0 {
			lat = 0
		}
		var out world.Reply
		switch Weighted(t, lbl+"-out", 35, 20, 10, 12, 12, 11, 10) {
		case 6:
			// the header section arrives in time, then the body stalls: the timeout bounds the
			// whole background request, reading its body included
			out = world.Reply{Kind: "resp", Status: Pick(t, lbl+"-stallst", 200, 200, 503), Body: world.Body{Len: 30, StallAt: Pick(t, lbl+"-stallat", 1, 6, 30)}, Header: [][2]string{H("Date", "$T+0"),
				H("Cache-Control", "max-age="+itoa(life)+", stale-while-revalidate="+itoa(win)), H("Etag", `"v$S"`)}}
		case 0:
			out = world.Reply{Kind: "resp", Status: 304, Header: [][2]string{H("Date", "$T+0")}}
		case 1:
			out = world.Reply{Kind: "resp", Status: 200, Body: world.Body{Len: 30}, Header: [][2]string{H("Date", "$T+0"),
				H("Cache-Control", "max-age="+itoa(life)+", stale-while-revalidate="+itoa(win)), H("Etag", `"v$S"`)}}
			if Pct(t, lbl+"-pause", 40) {
				// a full reply that is still arriving when the header section has been read
				out.Body.PauseAt = Pick(t, lbl+"-pauseat", 1, 2, 15, 30)
			}
		case 2:
			out = world.Reply{Kind: "resp", Status: 200, Body: world.Body{Len: 30}, Header: [][2]string{H("Date", "$T+0"), H("Cache-Control", "no-store")}}
		case 3:
			out = world.Reply{Kind: "resp", Status: Pick(t, lbl+"-5xx", 500, 503), Body: world.Body{Len: 10}, Header: [][2]string{H("Date", "$T+0")}}
		case 4:
			out = world.Reply{Kind: "err"}
		case 5:
			out = world.Reply{Kind: "resp", Status: 200, Body: world.Body{Len: 30, FailAt: 5}, Header: [][2]string{H("Date", "$T+0"), H("Cache-Control", "max-age=60")}}
		}
		if kind == "hang" {
			out = world.Reply{Kind: "hang"}
		}
		out.LatencyNs = lat
		// the scripted outcome applies to the background request only (conditional or not);
		// a foreground call (entry gone) gets a benign answer so that the caller never hangs
		rq.Bg = &out
		rq.Uncond = world.Reply{Kind: "resp", Status: 200, Body: world.Body{Len: 30}, Header: [][2]string{H("Date", "$T+0"),
			H("Cache-Control", "max-age="+itoa(life)+", stale-while-revalidate="+itoa(win)), H("Etag", `"v$S"`)}}
		rq.Cond = Simple304()
		if Pct(t, lbl+"-reuse", 25) {
			// the caller reuses its request object for something else, at once or while the
			// background request is in flight
			rq.ReuseReq = true
			rq.ReuseDelayNs = Pick(t, lbl+"-reused", int64(0), 0, Sec/2)
		}
		sc.Steps = append(sc.Steps, ReqStep(rq))
	}
	return sc
}
