package world

import (
	"bufio"
	"bytes"
	"context"
	"encoding/base64"
	"errors"
	"fmt"
	"io"
	"log/slog"
	"net"
	"net/http"
	"net/url"
	"os"
	"path/filepath"
	"regexp"
	"runtime"
	"sort"
	"strconv"
	"strings"
	"sync"
	"sync/atomic"
	"syscall"
	"testing"
	"testing/synctest"
	"time"

	"github.com/bartventer/httpcache"
	"github.com/bartventer/httpcache/store"
	"github.com/bartventer/httpcache/store/driver"
	"github.com/bartventer/httpcache/store/fscache"
	"github.com/bartventer/httpcache/store/memcache"
)

// ---------------------------------------------------------------------------
// Observation log

type Obs struct {
	Sc        *Scenario
	Exchanges []*Exchange // one per req step, in order
	Calls     []*Call     // every upstream RoundTrip, in start order
	Ops       []*StoreOp  // every driver.Conn operation, in order
	Keys      [][]string  // live keys (sorted) after each step
	KeySizes  [][]int     // value sizes matching Keys
	Leak      string      // bubble ended with blocked goroutines / deadlock message
	Fatal     string      // harness-level failure (panic outside RoundTrip)
	LogBytes  int         // bytes written to the debug logger
	Deferred  string      // what a deferred (asynchronous) log handler resolved at the end of the scenario
	Trace     []string    // controlled mode: the operations in the order they were let through
	Alts      []int       // controlled mode: number of pending operations at each decision
	EndNs     int64
}

type Exchange struct {
	Step      int
	Idx       int
	Req       *Req
	StartNs   int64
	EndNs     int64
	StartSeq  int64
	EndSeq    int64
	Gid       uint64
	Resp      *RespObs
	Err       string
	Panic     string
	ReqDiff   string // non-empty if the caller's *http.Request changed during the call
	ReqDiffBg string // non-empty if it changed later (background work)
	Thread    int    // thread index in the concurrent phase (-1: sequential client)
	Scribbled bool   // the caller wrote to the returned header map
	ReqReused bool   // the caller modified its request after closing the body
	NilNil    bool   // RoundTrip returned (nil, nil)
	Both      bool   // RoundTrip returned a response and an error

	reqSnap reqSnapshot
	req     *http.Request
	resp    *http.Response
	held    bool // body not read yet
}

type RespObs struct {
	Status      int
	StatusLine  string
	Proto       string
	Header      http.Header // deep copy taken when RoundTrip returned
	HeaderEnd   http.Header // deep copy taken after the scenario quiesced
	Trailer     http.Header
	Body        []byte
	BodyErr     string
	ContentLen  int64
	TE          []string
	Uncompress  bool
	ReqIsCaller bool // resp.Request == caller's request
}

type Call struct {
	Serial   int
	Ex       int // exchange index this call is attributed to (-1 unknown)
	Fg       bool
	Gid      uint64
	StartNs  int64
	EndNs    int64
	StartSeq int64
	EndSeq   int64
	Method   string
	URL      string
	Header   http.Header
	Cond     bool
	Reply    *Reply // the script entry used (nil => default 200)
	Kind     string // resp | err | hang
	Status   int
	RespHdr  http.Header // as sent (placeholders substituted)
	Trailer  http.Header // trailer fields the origin sends after a chunked body (nil if none)
	// BodyTracked: the reply carried a body whose Close is observed; BodyClosed: somebody closed it.
	BodyTracked bool
	BodyClosed  atomic.Bool
	Body        []byte // full intended body
	FailAt      int
	// StallAt > 0: the body blocks after StallAt-1 bytes; BodyUnblockedNs: when that read
	// returned (-1: never). Short > 0: the body ended (cleanly) that many bytes early.
	StallAt         int
	BodyUnblockedNs atomic.Int64
	// BodyCutNs: when a read of a context-bound body was refused because the context had ended
	// before every byte was delivered (-1: never)
	BodyCutNs atomic.Int64
	Short           int
	CtxDoneNs       int64 // virtual time at which the call saw ctx.Done (-1 if not)
	CtxErr          string
	Completed       bool
	HasDeadline     bool
	DeadlineNs      int64
}

type StoreOp struct {
	Seq   int64
	Gid   uint64 // goroutine the operation ran on (the caller's for foreground work)
	N     int    // index among store ops
	Ex    int    // exchange in progress on the caller side when the op ran (-1 none)
	NowNs int64
	Op    string // get | set | delete
	Key   string
	Val   []byte // value passed to Set / returned by Get (after fault)
	Err   string
	NotEx bool
	Fault string
}

// ---------------------------------------------------------------------------
// Store driver "verif://<id>"

var (
	regOnce sync.Once
	worlds  sync.Map // id -> *World
	nextID  atomic.Int64
)

func register() {
	regOnce.Do(func() {
		store.Register("verif", driver.DriverFunc(func(u *url.URL) (driver.Conn, error) {
			w, ok := worlds.Load(u.Host)
			if !ok {
				return nil, fmt.Errorf("verif: unknown world %q", u.Host)
			}
			return &recConn{w: w.(*World)}, nil
		}))
	})
}

type World struct {
	id       string
	sc       *Scenario
	obs      *Obs
	t0       time.Time
	seq      atomic.Int64
	mu       sync.Mutex // protects obs.Calls, obs.Ops, serial, faults; never held while parked
	serial   int
	nops     int
	inner    driver.Conn
	dir      string
	curEx    atomic.Int64 // exchange index in progress (-1 none)
	faults   map[int]Fault
	logbuf   *countWriter
	exByKey  map[any]int
	reqObj   map[int]*http.Request // request objects by step (for SameObj)
	deferred *deferredHandler

	// controlled scheduling (C16 A)
	controlled atomic.Bool
	pending    []*pendingOp
	gidTask    map[uint64]string
}

type pendingOp struct {
	task  string
	label string
	ch    chan struct{}
}

// yield parks the calling goroutine until the controller lets this operation proceed.
func (w *World) yield(task, label string) {
	if !w.controlled.Load() {
		return
	}
	p := &pendingOp{task: task, label: label, ch: make(chan struct{})}
	w.mu.Lock()
	w.pending = append(w.pending, p)
	w.mu.Unlock()
	<-p.ch
}

// taskOf names the task a goroutine belongs to: a client thread, or the background work of an
// exchange (registered at its first origin call, which carries the exchange id).
func (w *World) taskOf(g uint64, exIdx int) string {
	w.mu.Lock()
	defer w.mu.Unlock()
	if t, ok := w.gidTask[g]; ok {
		return t
	}
	t := "bg?"
	if exIdx >= 0 {
		t = fmt.Sprintf("bg%03d", exIdx)
	}
	w.gidTask[g] = t
	return t
}

// deferredHandler is a slog handler of the asynchronous kind: Handle only queues the record;
// its attributes (LogValuers included) are resolved when the queue is drained - here at the end
// of the scenario, long after the round trips that logged them have returned.
type deferredHandler struct {
	mu    *sync.Mutex
	recs  *[]slog.Record
	attrs []slog.Attr
}

func (h *deferredHandler) Enabled(context.Context, slog.Level) bool { return true }
func (h *deferredHandler) Handle(_ context.Context, r slog.Record) error {
	c := r.Clone()
	c.AddAttrs(h.attrs...)
	h.mu.Lock()
	*h.recs = append(*h.recs, c)
	h.mu.Unlock()
	return nil
}
func (h *deferredHandler) WithAttrs(a []slog.Attr) slog.Handler {
	return &deferredHandler{mu: h.mu, recs: h.recs, attrs: append(append([]slog.Attr(nil), h.attrs...), a...)}
}
func (h *deferredHandler) WithGroup(string) slog.Handler { return h }

func resolveValue(b *strings.Builder, v slog.Value) {
	v = v.Resolve()
	if v.Kind() == slog.KindGroup {
		for _, a := range v.Group() {
			b.WriteString(a.Key)
			b.WriteByte('=')
			resolveValue(b, a.Value)
			b.WriteByte(' ')
		}
		return
	}
	fmt.Fprintf(b, "%v", v.Any())
}

// drainDeferred resolves every queued record (as the consumer of an asynchronous handler would).
func (w *World) drainDeferred() string {
	if w.deferred == nil {
		return ""
	}
	var b strings.Builder
	w.deferred.mu.Lock()
	recs := append([]slog.Record(nil), *w.deferred.recs...)
	w.deferred.mu.Unlock()
	for _, r := range recs {
		b.WriteString(r.Message)
		b.WriteByte(' ')
		r.Attrs(func(a slog.Attr) bool {
			b.WriteString(a.Key)
			b.WriteByte('=')
			resolveValue(&b, a.Value)
			b.WriteByte(' ')
			return true
		})
		b.WriteByte('\n')
	}
	return b.String()
}

type countWriter struct {
	mu sync.Mutex
	n  int
}

func (c *countWriter) Write(p []byte) (int, error) {
	c.mu.Lock()
	c.n += len(p)
	c.mu.Unlock()
	return len(p), nil
}

type recConn struct{ w *World }

func (w *World) now() int64 { return int64(time.Since(w.t0)) }

func (c *recConn) record(op *StoreOp) {
	w := c.w
	w.mu.Lock()
	op.N = len(w.obs.Ops)
	w.obs.Ops = append(w.obs.Ops, op)
	w.mu.Unlock()
}

func (c *recConn) fault() (Fault, bool, int) {
	w := c.w
	w.mu.Lock()
	n := w.nops
	w.nops++
	f, ok := w.faults[n]
	w.mu.Unlock()
	if ok && f.Kind == "crash" {
		// the process "dies" right before this store operation: nothing of the current round
		// trip runs any further (the harness recovers the sentinel and carries on like a restart)
		panic(CrashSentinel)
	}
	return f, ok, n
}

// CrashSentinel is the panic value of the simulated process death (fault kind "crash").
const CrashSentinel = "verif: simulated process death"

var errInjected = errors.New("verif: injected store failure")

func mutate(val []byte, f Fault) []byte {
	switch f.Kind {
	case "trunc":
		if len(val) == 0 {
			return val
		}
		k := f.Arg % len(val)
		if k < 0 {
			k = -k
		}
		return append([]byte(nil), val[:k]...)
	case "flip":
		if len(val) == 0 {
			return val
		}
		k := f.Arg % len(val)
		if k < 0 {
			k = -k
		}
		out := append([]byte(nil), val...)
		out[k] ^= 0x55
		return out
	case "empty":
		return []byte{}
	case "const":
		return []byte(f.Data)
	}
	return val
}

func (c *recConn) Get(key string) ([]byte, error) {
	w := c.w
	if w.controlled.Load() {
		w.yield(w.taskOf(gid(), -1), "get "+key)
	}
	f, has, _ := c.fault()
	op := &StoreOp{Seq: w.seq.Add(1), Gid: gid(), Ex: int(w.curEx.Load()), NowNs: w.now(), Op: "get", Key: key}
	if has {
		op.Fault = f.Kind
		switch f.Kind {
		case "err":
			op.Err = errInjected.Error()
			c.record(op)
			return nil, errInjected
		case "notexist":
			op.Err = "notexist(injected)"
			op.NotEx = true
			c.record(op)
			return nil, errors.Join(driver.ErrNotExist, errInjected)
		}
	}
	val, err := w.inner.Get(key)
	if err != nil {
		op.Err = err.Error()
		op.NotEx = errors.Is(err, driver.ErrNotExist)
		c.record(op)
		return nil, err
	}
	if has {
		val = mutate(val, f)
	}
	op.Val = append([]byte(nil), val...)
	c.record(op)
	return val, nil
}

func (c *recConn) Set(key string, value []byte) error {
	w := c.w
	if w.controlled.Load() {
		w.yield(w.taskOf(gid(), -1), "set "+key)
	}
	f, has, _ := c.fault()
	op := &StoreOp{Seq: w.seq.Add(1), Gid: gid(), Ex: int(w.curEx.Load()), NowNs: w.now(), Op: "set", Key: key, Val: append([]byte(nil), value...)}
	if has {
		op.Fault = f.Kind
		switch f.Kind {
		case "err", "notexist":
			op.Err = errInjected.Error()
			c.record(op)
			return errInjected
		case "rlimit":
			// the write is cut short after Arg bytes by the file-size limit (full disk / quota)
			restore := LimitFileSize(uint64(f.Arg))
			err := w.inner.Set(key, value)
			restore()
			if err != nil {
				op.Err = err.Error()
			}
			c.record(op)
			return err
		default:
			// a write that silently stores something else (torn / corrupted medium)
			value = mutate(value, f)
		}
	}
	err := w.inner.Set(key, value)
	if err != nil {
		op.Err = err.Error()
	}
	c.record(op)
	return err
}

func (c *recConn) Delete(key string) error {
	w := c.w
	if w.controlled.Load() {
		w.yield(w.taskOf(gid(), -1), "delete "+key)
	}
	f, has, _ := c.fault()
	op := &StoreOp{Seq: w.seq.Add(1), Gid: gid(), Ex: int(w.curEx.Load()), NowNs: w.now(), Op: "delete", Key: key}
	if has {
		op.Fault = f.Kind
		switch f.Kind {
		case "err":
			op.Err = errInjected.Error()
			c.record(op)
			return errInjected
		case "notexist":
			op.Err = "notexist(injected)"
			op.NotEx = true
			c.record(op)
			return errors.Join(driver.ErrNotExist, errInjected)
		}
	}
	err := w.inner.Delete(key)
	if err != nil {
		op.Err = err.Error()
		op.NotEx = errors.Is(err, driver.ErrNotExist)
	}
	c.record(op)
	return err
}

// ---------------------------------------------------------------------------
// Scripted origin

type exKey struct{}

func gid() uint64 {
	var buf [64]byte
	n := runtime.Stack(buf[:], false)
	// "goroutine 123 ["
	s := string(buf[:n])
	s = strings.TrimPrefix(s, "goroutine ")
	if i := strings.IndexByte(s, ' '); i > 0 {
		v, _ := strconv.ParseUint(s[:i], 10, 64)
		return v
	}
	return 0
}

type origin struct{ w *World }

// ErrOrigin is the error the scripted origin returns for Kind "err".
type OriginError struct{ Serial int }

func (e *OriginError) Error() string {
	return fmt.Sprintf("origin: injected transport error s%d", e.Serial)
}

func expandBody(b Body, serial int, noTok bool) []byte {
	n := b.Len
	out := make([]byte, n)
	switch b.Class {
	case "rand":
		x := b.Seed*2862933555777941757 + 3037000493
		for i := range out {
			x ^= x << 13
			x ^= x >> 7
			x ^= x << 17
			out[i] = byte(x >> 24)
		}
	case "crlf":
		pat := []byte("\r\n\r\n\n\r0\r\n\r\n")
		for i := range out {
			out[i] = pat[(i+int(b.Seed))%len(pat)]
		}
	case "nul":
		for i := range out {
			if (i+int(b.Seed))%3 == 0 {
				out[i] = 0
			} else {
				out[i] = 0xff
			}
		}
	case "httpish":
		pat := []byte("HTTP/1.1 200 OK\r\nContent-Length: 5\r\nConnection: close\r\nTransfer-Encoding: chunked\r\n\r\n5\r\nhello\r\n0\r\n\r\nConnection: keep-alive\r\nContent-Length: 0\r\n\r\nTrailer: X-T\r\nHTTP/1.0 304 Not Modified\r\nConnection: close\r\n\r\n")
		for i := range out {
			out[i] = pat[(i+int(b.Seed))%len(pat)]
		}
	case "meta":
		pat := []byte("http://a.test/#0\t2000-01-01T00:00:00Z\t2000-01-01T00:00:00Z\nHTTP/1.1 200 OK\r\n\r\n")
		for i := range out {
			out[i] = pat[(i+int(b.Seed))%len(pat)]
		}
	default:
		for i := range out {
			out[i] = 'x'
		}
	}
	if !noTok {
		tok := BodyToken(serial)
		if len(tok) <= n {
			copy(out, tok)
		}
	}
	return out
}

// BodyToken is the provenance token placed at the start of a reply body (when it fits).
func BodyToken(serial int) string { return fmt.Sprintf("<<s%d>>", serial) }

// ParseBodyToken extracts the serial from a body, or -1.
func ParseBodyToken(b []byte) int {
	if !bytes.HasPrefix(b, []byte("<<s")) {
		return -1
	}
	i := bytes.Index(b, []byte(">>"))
	if i < 0 || i > 24 {
		return -1
	}
	v, err := strconv.Atoi(string(b[3:i]))
	if err != nil {
		return -1
	}
	return v
}

type failReader struct {
	data []byte
	pos  int
	fail int // fail after this many bytes (sticky); <0 never
	call *Call
	// closeErr: Close reports an error (after the fact: every byte has been delivered)
	closeErr bool
	// stall: block after this many bytes until ctx ends or the body is closed; <0 never
	stall int
	// pause: the bytes from this offset on arrive one second later; <0 never
	pause  int
	paused bool
	// ctxBound: reads fail once ctx has ended (bodies of background calls: only the cache
	// ever reads them)
	ctxBound bool
	ctx      context.Context
	closed   chan struct{}
	once     sync.Once
	now      func() int64
}

var ErrBody = errors.New("origin: injected body read failure")

func (r *failReader) Read(p []byte) (int, error) {
	if r.fail >= 0 && r.pos >= r.fail {
		return 0, ErrBody
	}
	if r.pause >= 0 && !r.paused && r.pos >= r.pause && r.pos < len(r.data) {
		// the rest of the body is a second late in coming (a streamed reply): the read waits
		// for it like a read from a connection - until the data, the end of the context or Close
		r.paused = true
		// just short of a second, so that the arrival never coincides with a whole-second
		// event of the scenario (simultaneous events have no defined order in the bubble)
		tm := time.NewTimer(time.Second - time.Millisecond)
		select {
		case <-tm.C:
		case <-r.ctx.Done():
		case <-r.closed:
		}
		tm.Stop()
	}
	if r.ctxBound && r.ctx.Err() != nil {
		// like the body of a net/http.Transport response: once the request's context has
		// ended, nothing more can be read
		if r.call != nil && r.pos < len(r.data) && r.call.BodyCutNs.Load() < 0 {
			r.call.BodyCutNs.Store(r.now())
		}
		return 0, context.Cause(r.ctx)
	}
	if r.stall >= 0 && r.pos >= r.stall {
		var err error
		select {
		case <-r.ctx.Done():
			err = context.Cause(r.ctx)
		case <-r.closed:
			err = ErrBodyClosed
		}
		if r.call != nil && r.call.BodyUnblockedNs.Load() < 0 {
			r.call.BodyUnblockedNs.Store(r.now())
		}
		return 0, err
	}
	if r.pos >= len(r.data) {
		return 0, io.EOF
	}
	lim := len(r.data)
	if r.fail >= 0 && r.fail < lim {
		lim = r.fail
	}
	if r.stall >= 0 && r.stall < lim {
		lim = r.stall
	}
	if r.pause >= 0 && !r.paused && r.pause > r.pos && r.pause < lim {
		lim = r.pause
	}
	n := copy(p, r.data[r.pos:lim])
	r.pos += n
	return n, nil
}
func (r *failReader) Close() error {
	if r.call != nil {
		r.call.BodyClosed.Store(true)
	}
	if r.closed != nil {
		r.once.Do(func() { close(r.closed) })
	}
	if r.closeErr {
		return ErrBodyClose
	}
	return nil
}

var ErrLegacyCancel = errors.New("net/http: request canceled (Request.Cancel channel closed)")
var ErrBodyClosed = errors.New("origin: read on closed response body")
var ErrBodyClose = errors.New("origin: injected body close failure")

var tRe = regexp.MustCompile(`\$([TRAJP])([+-][0-9]+)`)
var xRe = regexp.MustCompile(`\$X([0-9A-Fa-f]{2})`)

// subst expands the placeholders of a scripted header value: $S = serial of the reply,
// $T+n / $T-n = HTTP-date n seconds after/before the (virtual) instant of the reply.
func subst(v string, serial int, nowNs int64) string {
	if !strings.Contains(v, "$") {
		return v
	}
	v = strings.ReplaceAll(v, "$S", strconv.Itoa(serial))
	v = xRe.ReplaceAllStringFunc(v, func(m string) string {
		b, _ := strconv.ParseUint(m[2:], 16, 8)
		return string([]byte{byte(b)})
	})
	// $T = IMF-fixdate, $R = RFC 850, $A = asctime (the three formats of RFC 9110 §5.6.7)
	return tRe.ReplaceAllStringFunc(v, func(m string) string {
		n, _ := strconv.ParseInt(m[2:], 10, 64)
		sec := nowNs / 1e9
		tm := t0Wall.Add(time.Duration(sec+n) * time.Second).UTC()
		switch m[1] {
		case 'R':
			return tm.Format("Monday, 02-Jan-06 15:04:05 GMT")
		case 'A':
			return tm.Format(time.ANSIC)
		case 'J':
			return tm.Add(9*time.Hour).Format("Monday, 02-Jan-06 15:04:05") + " JST"
		case 'P':
			return tm.Add(-8*time.Hour).Format("Monday, 02-Jan-06 15:04:05") + " PST"
		}
		return tm.Format(http.TimeFormat)
	})
}

// SubstBytes expands only the $X<hh> raw-byte escapes (request header values).
func SubstBytes(v string) string {
	if !strings.Contains(v, "$X") {
		return v
	}
	return xRe.ReplaceAllStringFunc(v, func(m string) string {
		b, _ := strconv.ParseUint(m[2:], 16, 8)
		return string([]byte{byte(b)})
	})
}

var t0Wall = time.Date(2000, 1, 1, 0, 0, 0, 0, time.UTC)

func defaultReply() *Reply {
	return &Reply{Kind: "resp", Status: 200, Header: [][2]string{{"Cache-Control", "no-store"}}, Body: Body{Len: 16}}
}

func (o *origin) RoundTrip(req *http.Request) (*http.Response, error) {
	w := o.w
	g := gid()
	exIdx := -1
	if v, ok := req.Context().Value(exKey{}).(int); ok {
		exIdx = v
	} else {
		// fall back to the latest exchange for the same URL text
		w.mu.Lock()
		for i := len(w.obs.Exchanges) - 1; i >= 0; i-- {
			if w.obs.Exchanges[i].Req.URL == req.URL.String() {
				exIdx = i
				break
			}
		}
		w.mu.Unlock()
	}
	cond := req.Header.Get("If-None-Match") != "" || req.Header.Get("If-Modified-Since") != ""
	if w.controlled.Load() {
		w.yield(w.taskOf(g, exIdx), "origin "+req.Method+" "+req.URL.Path)
	}
	var ex *Exchange
	w.mu.Lock()
	if exIdx >= 0 && exIdx < len(w.obs.Exchanges) {
		ex = w.obs.Exchanges[exIdx]
	}
	w.serial++
	serial := w.serial
	w.mu.Unlock()
	fg := ex != nil && ex.Gid == g
	var rp *Reply
	if ex != nil {
		rp = &ex.Req.Uncond
		if cond && ex.Req.Cond != nil {
			rp = ex.Req.Cond
		}
		if !fg && ex.Req.Bg != nil {
			rp = ex.Req.Bg
		}
	} else {
		rp = defaultReply()
	}
	call := &Call{
		Serial: serial, Ex: exIdx, Fg: fg, Gid: g, StartNs: w.now(), StartSeq: w.seq.Add(1),
		Method: req.Method, URL: effectiveURL(req), Header: canonicalHeader(req.Header), Cond: cond,
		Reply: rp, Kind: rp.Kind, CtxDoneNs: -1, FailAt: rp.Body.FailAt,
	}
	call.BodyUnblockedNs.Store(-1)
	call.BodyCutNs.Store(-1)
	if dl, ok := req.Context().Deadline(); ok {
		call.HasDeadline = true
		call.DeadlineNs = int64(dl.Sub(w.t0))
	}
	w.mu.Lock()
	w.obs.Calls = append(w.obs.Calls, call)
	w.mu.Unlock()

	finishErr := func(err error) (*http.Response, error) {
		call.EndNs = w.now()
		call.EndSeq = w.seq.Add(1)
		call.Completed = true
		return nil, err
	}
	ctx := req.Context()
	if rp.IgnoreCtx {
		ctx = context.WithoutCancel(ctx)
	} else if req.Cancel != nil { //nolint:staticcheck
		// http.Transport honours the deprecated Cancel channel for the whole exchange
		var stop context.CancelCauseFunc
		ctx, stop = context.WithCancelCause(ctx)
		legacy := req.Cancel //nolint:staticcheck
		done := make(chan struct{})
		defer close(done)
		go func() {
			select {
			case <-legacy:
				stop(ErrLegacyCancel)
			case <-done:
				stop(nil)
			}
		}()
		select {
		case <-legacy:
			stop(ErrLegacyCancel)
		default:
		}
	}
	if err := ctx.Err(); err != nil {
		call.CtxDoneNs = w.now()
		call.CtxErr = context.Cause(ctx).Error()
		return finishErr(err)
	}
	if rp.Kind == "hang" {
		<-ctx.Done()
		call.CtxDoneNs = w.now()
		call.CtxErr = context.Cause(ctx).Error()
		return finishErr(ctx.Err())
	}
	if rp.LatencyNs > 0 {
		lat := rp.LatencyNs
		if !fg {
			// Background calls complete a few (serial) nanoseconds after the whole second: two
			// background calls, or a background call and the sequential client's next step, never
			// become runnable at the same virtual instant, so every scenario has one outcome.
			lat += int64(serial)
		}
		tm := time.NewTimer(time.Duration(lat))
		select {
		case <-tm.C:
		case <-ctx.Done():
			tm.Stop()
			call.CtxDoneNs = w.now()
			call.CtxErr = context.Cause(ctx).Error()
			return finishErr(ctx.Err())
		}
	}
	if rp.Kind == "err" {
		return finishErr(&OriginError{Serial: serial})
	}
	// build the response the way a real http.Transport would deliver it
	status := rp.Status
	if status == 0 {
		status = 200
	}
	hdr := http.Header{}
	for _, kv := range rp.Header {
		hdr.Add(kv[0], subst(kv[1], serial, w.now()))
	}
	if !rp.NoTok {
		if status == http.StatusNotModified {
			hdr.Set("X-Val", strconv.Itoa(serial))
		} else {
			hdr.Set("X-Tok", strconv.Itoa(serial))
		}
	}
	body := expandBody(rp.Body, serial, rp.NoTok)
	if status == http.StatusNotModified || status/100 == 1 || status == 204 || rp.Shape == "nobody" || req.Method == http.MethodHead {
		body = nil
	}
	call.Body = body
	call.Status = status
	if rp.Shape == "chunked" && len(rp.Trailer) > 0 && body != nil {
		call.Trailer = http.Header{}
		for _, kv := range rp.Trailer {
			call.Trailer.Add(kv[0], subst(kv[1], serial, w.now()))
		}
	}
	reason := rp.Reason
	if reason == "" {
		reason = http.StatusText(status)
	}
	if w.sc.Wire {
		resp, err := w.wireRoundTrip(req, rp, status, reason, hdr, call)
		call.EndNs = w.now()
		call.EndSeq = w.seq.Add(1)
		call.Completed = true
		if err != nil {
			call.Kind = "err"
			return nil, err
		}
		call.RespHdr = resp.Header.Clone()
		return resp, nil
	}
	resp := &http.Response{
		Status:     strconv.Itoa(status) + " " + reason,
		StatusCode: status,
		Proto:      "HTTP/1.1", ProtoMajor: 1, ProtoMinor: 1,
		Header:  hdr,
		Request: req,
	}
	if rp.RespReqWithout != "" {
		r2 := req.Clone(req.Context())
		r2.Header.Del(rp.RespReqWithout)
		r2.Header.Set("X-Forwarded-By", "middleware")
		resp.Request = r2
	}
	fail := -1
	if rp.Body.FailAt > 0 {
		fail = rp.Body.FailAt - 1
	}
	stall := -1
	if rp.Body.StallAt > 0 && body != nil {
		stall = min(rp.Body.StallAt-1, len(body))
		call.StallAt = stall + 1
	}
	if rp.Body.ShortBy > 0 && len(body) > 0 && (rp.Shape == "" || rp.Shape == "cl") {
		call.Short = min(rp.Body.ShortBy, len(body))
	}
	fr := &failReader{data: body, fail: fail, call: call, closeErr: rp.Body.CloseErr, stall: stall, pause: rp.Body.PauseAt - 1, ctx: ctx, ctxBound: !fg && !rp.IgnoreCtx, closed: make(chan struct{}), now: w.now}
	if call.Short > 0 {
		fr.data = body[:len(body)-call.Short] // fewer bytes than the Content-Length below announces, then EOF
		call.Body = fr.data                   // what the origin delivered is what a client can get
	}
	var rd io.ReadCloser = fr
	switch rp.Shape {
	case "", "cl":
		resp.ContentLength = int64(len(body))
		if !(status == http.StatusNotModified || status/100 == 1 || status == 204) {
			hdr.Set("Content-Length", strconv.Itoa(len(body)))
		}
	case "chunked":
		resp.ContentLength = -1
		resp.TransferEncoding = []string{"chunked"}
		if len(rp.Trailer) > 0 {
			resp.Trailer = http.Header{}
			for _, kv := range rp.Trailer {
				resp.Trailer.Add(kv[0], subst(kv[1], serial, w.now()))
			}
		}
	case "close":
		resp.ContentLength = -1
		resp.Close = true
	case "http10":
		resp.Proto, resp.ProtoMajor, resp.ProtoMinor = "HTTP/1.0", 1, 0
		resp.ContentLength = -1
		resp.Close = true
	case "h2":
		resp.Proto, resp.ProtoMajor, resp.ProtoMinor = "HTTP/2.0", 2, 0
		resp.ContentLength = int64(len(body))
		hdr.Set("Content-Length", strconv.Itoa(len(body)))
	case "h2nolen":
		resp.Proto, resp.ProtoMajor, resp.ProtoMinor = "HTTP/2.0", 2, 0
		resp.ContentLength = -1
	case "nobody":
		resp.ContentLength = 0
		rd = http.NoBody
	}
	if rp.DeclLen > int64(len(body)) && body != nil && (rp.Shape == "" || rp.Shape == "cl" || rp.Shape == "h2") {
		resp.ContentLength = rp.DeclLen
		hdr.Set("Content-Length", strconv.FormatInt(rp.DeclLen, 10))
		if call.Short == 0 {
			call.Short = 1 // fewer bytes than announced: such a reply is not complete
		}
	}
	if body == nil && rp.Shape != "nobody" {
		rd = http.NoBody
		if resp.ContentLength < 0 {
			resp.ContentLength = 0
		}
	}
	resp.Body = rd
	_, call.BodyTracked = rd.(*failReader)
	call.RespHdr = hdr.Clone()
	if rp.NilHeader {
		resp.Header = nil
		call.RespHdr = http.Header{}
	}
	call.EndNs = w.now()
	call.EndSeq = w.seq.Add(1)
	call.Completed = true
	return resp, nil
}

// ---------------------------------------------------------------------------
// request snapshots

type reqSnapshot struct {
	Method string
	URL    string
	Host   string
	Header http.Header
	HdrPtr string
	Ctx    context.Context
	Body   io.ReadCloser
}

// effectiveURL is the target URI a server would reconstruct from the request line and the
// Host field (RFC 9110 §7.1): req.Host overrides URL.Host, URL.Opaque is the request target.
func effectiveURL(req *http.Request) string {
	u := *req.URL
	if req.Host != "" {
		u.Host = req.Host // (not used below when the Opaque itself names an authority)
	}
	if u.Opaque != "" {
		raw := u.Scheme + ":" + u.Opaque
		if strings.Contains(u.Opaque, "://") && !strings.HasPrefix(u.Opaque, "/") {
			raw = u.Opaque // absolute form: the URI itself
		} else if !strings.HasPrefix(u.Opaque, "//") {
			// (URL.Host holds the decoded host: "[fe80::1%eth0]" is written "[fe80::1%25eth0]")
			raw = (&url.URL{Scheme: u.Scheme, Host: u.Host}).String() + u.Opaque
		}
		if u.ForceQuery || u.RawQuery != "" {
			raw += "?" + u.RawQuery
		}
		if u.Fragment != "" {
			raw += "#" + u.EscapedFragment()
		}
		return raw
	}
	return u.String()
}

// canonicalHeader copies a header map, filing every field under its canonical name (what
// the receiving end of a connection would see).
func canonicalHeader(h http.Header) http.Header {
	out := make(http.Header, len(h))
	keys := make([]string, 0, len(h))
	for k := range h {
		keys = append(keys, k)
	}
	sort.Strings(keys)
	for _, k := range keys {
		ck := http.CanonicalHeaderKey(k)
		out[ck] = append(out[ck], h[k]...)
	}
	return out
}

func snapReq(r *http.Request) reqSnapshot {
	return reqSnapshot{Method: r.Method, URL: r.URL.String(), Host: r.Host, Header: r.Header.Clone(), Ctx: r.Context(), Body: r.Body}
}

func diffReq(a reqSnapshot, r *http.Request) string {
	b := snapReq(r)
	if a.Method != b.Method {
		return "method " + a.Method + " -> " + b.Method
	}
	if a.URL != b.URL {
		return "url " + a.URL + " -> " + b.URL
	}
	if a.Host != b.Host {
		return "host " + a.Host + " -> " + b.Host
	}
	if a.Ctx != b.Ctx {
		return "context replaced"
	}
	if d := DiffHeader(a.Header, b.Header); d != "" {
		return "header " + d
	}
	return ""
}

// DiffHeader reports the first difference between two header maps ("" if equal).
func DiffHeader(a, b http.Header) string {
	keys := map[string]bool{}
	for k := range a {
		keys[k] = true
	}
	for k := range b {
		keys[k] = true
	}
	ks := make([]string, 0, len(keys))
	for k := range keys {
		ks = append(ks, k)
	}
	sort.Strings(ks)
	for _, k := range ks {
		av, aok := a[k]
		bv, bok := b[k]
		if aok != bok {
			return fmt.Sprintf("%s: present %v -> %v (%q -> %q)", k, aok, bok, av, bv)
		}
		if len(av) != len(bv) {
			return fmt.Sprintf("%s: %q -> %q", k, av, bv)
		}
		for i := range av {
			if av[i] != bv[i] {
				return fmt.Sprintf("%s: %q -> %q", k, av, bv)
			}
		}
	}
	return ""
}

// ---------------------------------------------------------------------------
// Executor

var scratchRoot = func() string {
	for _, d := range []string{"/dev/shm", os.TempDir()} {
		if st, err := os.Stat(d); err == nil && st.IsDir() {
			p := filepath.Join(d, fmt.Sprintf("verif-%d", os.Getpid()))
			if os.MkdirAll(p, 0o755) == nil {
				return p
			}
		}
	}
	return os.TempDir()
}()

// ScratchRoot returns the per-process scratch directory (removed by CleanScratch).
func ScratchRoot() string { return scratchRoot }

func CleanScratch() { _ = os.RemoveAll(scratchRoot) }

const maxSleep = 5 * 365 * 24 * time.Hour

const encKey = "6S-Ks2YYOW0xMvTzKSv6QD30gZeOi1c6Ydr-As5csWk="

func (w *World) openInner() error {
	switch w.sc.Backend {
	case "", "mem":
		if w.inner == nil {
			w.inner = memcache.Open()
		}
		return nil
	case "fs":
		c, err := fscache.Open("app", fscache.WithBaseDir(w.dir))
		if err != nil {
			return err
		}
		w.inner = c
		return nil
	case "fsenc":
		c, err := fscache.Open("app", fscache.WithBaseDir(w.dir), fscache.WithEncryption(encKey))
		if err != nil {
			return err
		}
		w.inner = c
		return nil
	case "fsopt", "fsencopt":
		// the documented DSN route with every optional parameter set
		dsn := "fscache://" + w.dir + "?appname=app&update_mtime=on&timeout=90s&connect_timeout=45s"
		if w.sc.Backend == "fsencopt" {
			dsn += "&encrypt=aesgcm&encrypt_key=" + url.QueryEscape(encKey)
		}
		c, err := store.Open(dsn)
		if err != nil {
			return err
		}
		w.inner = c
		return nil
	}
	return fmt.Errorf("unknown backend %q", w.sc.Backend)
}

type keyLister interface {
	Keys(prefix string) ([]string, error)
}

// liveKeys derives the live key set from the op log for mem, or asks the backend.
func (w *World) liveKeys() ([]string, []int) {
	live := map[string]int{}
	w.mu.Lock()
	for _, op := range w.obs.Ops {
		switch op.Op {
		case "set":
			if op.Err == "" {
				live[op.Key] = len(op.Val)
			}
		case "delete", "ext-delete":
			if op.Err == "" {
				delete(live, op.Key)
			}
		}
	}
	w.mu.Unlock()
	ks := make([]string, 0, len(live))
	for k := range live {
		ks = append(ks, k)
	}
	sort.Strings(ks)
	sz := make([]int, len(ks))
	for i, k := range ks {
		sz[i] = live[k]
	}
	return ks, sz
}

func (w *World) newTransport() (rt http.RoundTripper, err error) {
	defer func() {
		if r := recover(); r != nil {
			err = fmt.Errorf("NewTransport panicked: %v", r)
		}
	}()
	opts := []httpcache.Option{httpcache.WithUpstream(&origin{w: w})}
	for _, v := range w.sc.SWRPre {
		opts = append(opts, httpcache.WithSWRTimeout(time.Duration(v)))
	}
	if w.sc.SWRSet {
		opts = append(opts, httpcache.WithSWRTimeout(time.Duration(w.sc.SWRNs)))
	}
	switch w.sc.Logger {
	case "":
	case "deferred":
		if w.deferred == nil {
			w.deferred = &deferredHandler{mu: &sync.Mutex{}, recs: &[]slog.Record{}}
		}
		opts = append(opts, httpcache.WithLogger(slog.New(w.deferred)))
	case "text":
		opts = append(opts, httpcache.WithLogger(slog.New(slog.NewTextHandler(w.logbuf, &slog.HandlerOptions{Level: slog.LevelDebug, AddSource: true}))))
	default:
		lvl := slog.LevelDebug
		switch w.sc.Logger {
		case "info":
			lvl = slog.LevelInfo
		case "warn":
			lvl = slog.LevelWarn
		case "error":
			lvl = slog.LevelError
		}
		opts = append(opts, httpcache.WithLogger(slog.New(slog.NewJSONHandler(w.logbuf, &slog.HandlerOptions{Level: lvl}))))
	}
	return httpcache.NewTransport("verif://"+w.id, opts...), nil
}

// Run executes the scenario in a fresh synctest bubble and returns the observations.
// It never fails the test itself; callers judge the observations.
// Zones are the local time zones the test processes run under (varied per shard).
var Zones = map[string]*time.Location{"utc": time.UTC, "east": time.FixedZone("east", 5*3600+1800), "west": time.FixedZone("west", -8*3600)}

// ZoneName names the current local zone ("" if it is none of Zones).
func ZoneName() string {
	for n, z := range Zones {
		if time.Local == z {
			return n
		}
	}
	return ""
}

func Run(t *testing.T, sc *Scenario) *Obs {
	register()
	if z, ok := Zones[sc.Zone]; ok && time.Local != z {
		old := time.Local
		time.Local = z
		defer func() { time.Local = old }()
	}
	obs := &Obs{Sc: sc}
	w := &World{id: "w" + strconv.FormatInt(nextID.Add(1), 10), sc: sc, obs: obs, faults: map[int]Fault{}, logbuf: &countWriter{}}
	for _, f := range sc.Faults {
		w.faults[f.At] = f
	}
	w.curEx.Store(-1)
	if strings.HasPrefix(sc.Backend, "fs") {
		w.dir = filepath.Join(scratchRoot, w.id)
		_ = os.MkdirAll(w.dir, 0o755)
		defer os.RemoveAll(w.dir)
	}
	worlds.Store(w.id, w)
	defer worlds.Delete(w.id)

	func() {
		defer func() {
			if r := recover(); r != nil {
				obs.Leak = fmt.Sprint(r)
			}
		}()
		synctest.Test(t, func(t *testing.T) {
			defer func() {
				if r := recover(); r != nil {
					buf := make([]byte, 4096)
					n := runtime.Stack(buf, false)
					obs.Fatal = fmt.Sprintf("harness panic: %v\n%s", r, buf[:n])
				}
			}()
			w.run()
		})
	}()
	obs.LogBytes = w.logbuf.n
	return obs
}

func (w *World) run() {
	sc, obs := w.sc, w.obs
	w.t0 = time.Now()
	if err := w.openInner(); err != nil {
		obs.Fatal = "open backend: " + err.Error()
		return
	}
	rt, err := w.newTransport()
	if err != nil {
		obs.Fatal = err.Error()
		return
	}
	var cancels []context.CancelFunc
	var rt2 http.RoundTripper // second transport on the same store, opened on first use
	for si, st := range sc.Steps {
		switch st.Op {
		case "sleep":
			d := time.Duration(st.DurNs)
			if d > maxSleep {
				d = maxSleep // clock horizon: virtual nanotime must stay far from 2^63
			}
			time.Sleep(d)
		case "reopen":
			if err := w.openInner(); err != nil {
				obs.Fatal = "reopen backend: " + err.Error()
				return
			}
			rt, err = w.newTransport()
			if err != nil {
				obs.Fatal = err.Error()
				return
			}
			rt2 = nil
		case "corrupt":
			w.corrupt(st.Corrupt)
		case "req":
			use := rt
			if st.Req.Via2 {
				if rt2 == nil {
					if rt2, err = w.newTransport(); err != nil {
						obs.Fatal = err.Error()
						return
					}
				}
				use = rt2
			}
			c := w.doReq(use, si, st.Req)
			if c != nil {
				cancels = append(cancels, c)
			}
		}
		// let everything that can run at this virtual instant finish (background work with
		// zero latency, timers that fired together with the end of a sleep): the sequential
		// client then observes a deterministic state
		synctest.Wait()
		ks, sz := w.liveKeys()
		obs.Keys = append(obs.Keys, ks)
		obs.KeySizes = append(obs.KeySizes, sz)
	}
	if len(sc.Threads) > 0 {
		var wg sync.WaitGroup
		var cmu sync.Mutex
		if sc.Controlled {
			w.gidTask = map[uint64]string{}
			w.controlled.Store(true)
		}
		for ti, th := range sc.Threads {
			wg.Add(1)
			go func(ti int, th []*Req) {
				defer wg.Done()
				if sc.Controlled {
					w.mu.Lock()
					w.gidTask[gid()] = fmt.Sprintf("t%02d", ti)
					w.mu.Unlock()
				}
				for ri, rq := range th {
					if sc.Controlled {
						// exchange numbers are handed out in scheduled order
						w.yield(fmt.Sprintf("t%02d", ti), fmt.Sprintf("begin request %d", ri))
					}
					if c := w.doReqMode(rt, len(sc.Steps), rq, true, ti); c != nil {
						cmu.Lock()
						cancels = append(cancels, c)
						cmu.Unlock()
					}
				}
			}(ti, th)
		}
		if sc.Controlled {
			w.controlLoop(&wg)
		}
		wg.Wait()
	}
	for si, st := range sc.After {
		switch st.Op {
		case "sleep":
			time.Sleep(min(time.Duration(st.DurNs), maxSleep))
		case "req":
			if c := w.doReq(rt, len(sc.Steps)+1+si, st.Req); c != nil {
				cancels = append(cancels, c)
			}
		}
		synctest.Wait()
	}
	// bodies the client held back are read now (everything the cache did in between must not
	// have touched them)
	for _, ex := range obs.Exchanges {
		if ex.held && ex.resp != nil && ex.resp.Body != nil {
			func() {
				defer func() {
					if r := recover(); r != nil {
						ex.Panic = fmt.Sprintf("body read: %v", r)
					}
				}()
				b, rerr := io.ReadAll(ex.resp.Body)
				ex.Resp.Body = b
				if rerr != nil {
					ex.Resp.BodyErr = rerr.Error()
				}
				_ = ex.resp.Body.Close()
			}()
		}
	}
	// let background work finish: longer than any SWR timeout we configure
	drain := 2 * time.Hour
	if sc.SWRSet && time.Duration(sc.SWRNs) > time.Hour {
		drain = 2 * time.Duration(sc.SWRNs)
	}
	time.Sleep(drain)
	synctest.Wait()
	for _, ex := range obs.Exchanges {
		if ex.resp != nil && ex.Resp != nil {
			ex.Resp.HeaderEnd = ex.resp.Header.Clone()
		}
		if ex.req != nil && !ex.ReqReused {
			ex.ReqDiffBg = diffReq(ex.reqSnap, ex.req)
		}
	}
	func() {
		defer func() {
			if r := recover(); r != nil {
				obs.Deferred = fmt.Sprintf("PANIC while resolving deferred log records: %v", r)
			}
		}()
		obs.Deferred = w.drainDeferred()
	}()
	obs.EndNs = w.now()
	for _, c := range cancels {
		c()
	}
	synctest.Wait()
}

func (w *World) corrupt(c *Corrupt) {
	if c == nil {
		return
	}
	if strings.HasPrefix(c.Kind, "file-") {
		w.corruptFile(c)
		return
	}
	ks, _ := w.liveKeys()
	if len(ks) == 0 {
		return
	}
	k := ks[((c.KeySel%len(ks))+len(ks))%len(ks)]
	if c.Kind == "delete" {
		_ = w.inner.Delete(k)
		// recorded for the monitors (not a store operation of the cache: N = -1)
		w.mu.Lock()
		w.obs.Ops = append(w.obs.Ops, &StoreOp{Seq: w.seq.Add(1), N: -1, Ex: -1, NowNs: w.now(), Op: "ext-delete", Key: k})
		w.mu.Unlock()
		return
	}
	val, err := w.inner.Get(k)
	if err != nil {
		return
	}
	_ = w.inner.Set(k, mutate(val, Fault{Kind: c.Kind, Arg: c.Arg, Data: c.Data}))
}

func (w *World) doReq(rt http.RoundTripper, step int, rq *Req) context.CancelFunc {
	return w.doReqMode(rt, step, rq, false, -1)
}

func (w *World) doReqMode(rt http.RoundTripper, step int, rq *Req, concurrent bool, thread int) context.CancelFunc {
	obs := w.obs
	ex := &Exchange{Step: step, Req: rq, Gid: gid(), Thread: thread}
	w.mu.Lock()
	ex.Idx = len(obs.Exchanges)
	obs.Exchanges = append(obs.Exchanges, ex)
	w.mu.Unlock()
	base := context.WithValue(context.Background(), exKey{}, ex.Idx)
	if rq.TraceID != "" {
		base = httpcache.ContextWithTraceID(base, rq.TraceID)
	}
	ctx, cancel := context.WithCancel(base)
	if rq.DeadlineNs > 0 {
		var c2 context.CancelFunc
		ctx, c2 = context.WithTimeout(ctx, time.Duration(rq.DeadlineNs))
		_ = c2 // released with cancel
	}
	switch {
	case rq.CancelNs < 0:
		cancel()
	case rq.CancelNs > 0:
		time.AfterFunc(time.Duration(rq.CancelNs), cancel)
	}
	var reqBody io.Reader
	if rq.BodyLen > 0 {
		reqBody = bytes.NewReader(bytes.Repeat([]byte("b"), rq.BodyLen))
	}
	req, err := http.NewRequestWithContext(ctx, rq.Method, rq.URL, reqBody)
	if err != nil {
		ex.Err = "harness: bad request: " + err.Error()
		return cancel
	}
	for _, kv := range rq.Header {
		if strings.HasPrefix(kv[0], "!") {
			// a key the caller put into the map as it is (not canonical)
			req.Header[kv[0][1:]] = append(req.Header[kv[0][1:]], SubstBytes(kv[1]))
			continue
		}
		req.Header.Add(kv[0], SubstBytes(kv[1]))
	}
	if rq.EmptyMethod {
		req.Method = ""
	}
	if rq.OpaqueForm > 0 && req.URL.Opaque == "" && !(rq.OpaqueForm == 1 && strings.HasPrefix(req.URL.EscapedPath(), "//")) {
		// (a path that itself begins with "//" cannot be spelled in Opaque: net/http would
		// read it as an authority)
		u := *req.URL
		u.Opaque = u.EscapedPath()
		if u.Opaque == "" {
			u.Opaque = "/"
		}
		if rq.OpaqueForm == 3 {
			// the absolute form a client puts on the request line for a proxy: the whole URI
			// (query aside) in Opaque
			u.Opaque = (&url.URL{Scheme: u.Scheme, Host: u.Host}).String() + u.Opaque
		}
		if rq.OpaqueForm == 2 {
			// (URL.Host is the decoded host: a zone identifier is written "%25" again)
			u.Opaque = (&url.URL{Host: u.Host}).String() + u.Opaque
		}
		u.Path, u.RawPath = "", ""
		req.URL = &u
	}
	if rq.Rootless && req.URL.Opaque == "" && len(req.URL.Path) > 1 && req.URL.Path[0] == '/' && req.URL.Path[1] != '/' && req.URL.Host != "" {
		// what url.Parse("http://host").JoinPath("a", "b") returns: Path "a/b". URL.String()
		// puts the slash back, so the target URI is unchanged.
		u := *req.URL
		u.Path = u.Path[1:]
		if u.RawPath != "" {
			u.RawPath = u.RawPath[1:]
		}
		req.URL = &u
	}
	if rq.StaleRawPath && req.URL.Opaque == "" && req.URL.Path != "" && req.URL.RawPath == "" {
		// (only for paths that need no hint themselves: with a hint of its own, replacing it
		// would change what goes on the wire)
		u := *req.URL
		u.RawPath = "/base%2Fof/the-parsed-url" // not an encoding of u.Path: ignored by EscapedPath, String, RequestURI
		if u.EscapedPath() == req.URL.EscapedPath() {
			req.URL = &u
		}
	}
	if rq.NilReqHeader && len(rq.Header) == 0 {
		req.Header = nil
	}
	var legacyCancel chan struct{}
	switch rq.LegacyCancel {
	case "pre":
		legacyCancel = make(chan struct{})
		close(legacyCancel)
	case "post", "open":
		legacyCancel = make(chan struct{})
	}
	if legacyCancel != nil {
		req.Cancel = legacyCancel //nolint:staticcheck // deprecated, but honoured by net/http and set by http.Client
	}
	if rq.HostOverride != "" && (rq.OpaqueForm == 2 || rq.OpaqueForm == 3) && req.URL.Opaque != "" {
		req.Host = rq.HostOverride
	}
	if rq.DialVia != "" {
		u := *req.URL
		req.Host = u.Host
		u.Host = rq.DialVia
		req.URL = &u
	}
	if rq.SameObj > 0 && !concurrent {
		if prev := w.reqObj[rq.SameObj-1]; prev != nil {
			req = prev.WithContext(ctx) // shares the header map and URL with the earlier use
		}
	}
	if !concurrent {
		w.mu.Lock()
		if w.reqObj == nil {
			w.reqObj = map[int]*http.Request{}
		}
		w.reqObj[step] = req
		w.mu.Unlock()
	}
	ex.req = req
	ex.reqSnap = snapReq(req)
	if !concurrent {
		w.curEx.Store(int64(ex.Idx))
	}
	ex.StartNs = w.now()
	ex.StartSeq = w.seq.Add(1)
	var resp *http.Response
	func() {
		defer func() {
			if r := recover(); r != nil {
				buf := make([]byte, 2048)
				n := runtime.Stack(buf, false)
				ex.Panic = fmt.Sprintf("%v\n%s", r, buf[:n])
			}
		}()
		resp, err = rt.RoundTrip(req)
	}()
	ex.EndNs = w.now()
	ex.EndSeq = w.seq.Add(1)
	if !concurrent {
		w.curEx.Store(-1)
	}
	ex.ReqDiff = diffReq(ex.reqSnap, req)
	if ex.Panic != "" {
		return cancel
	}
	if err != nil {
		ex.Err = err.Error()
		if resp != nil {
			ex.Both = true
		}
		return cancel
	}
	if resp == nil {
		ex.NilNil = true
		return cancel
	}
	ro := &RespObs{
		Status: resp.StatusCode, StatusLine: resp.Status, Proto: resp.Proto,
		Header: resp.Header.Clone(), ContentLen: resp.ContentLength,
		TE: append([]string(nil), resp.TransferEncoding...), Uncompress: resp.Uncompressed,
		ReqIsCaller: resp.Request == req,
	}
	ex.resp = resp
	if rq.Scribble {
		// the response belongs to the caller now: it may do with the header map what it likes
		ex.Scribbled = true
		resp.Header.Set("X-Scribble", "caller")
		resp.Header.Del("Etag")
		resp.Header.Add("Cache-Control", "caller-owned")
		resp.Header["Date"] = []string{"scribbled"}
		for k, vs := range resp.Header {
			if k != "X-Tok" {
				for i := range vs {
					vs[i] = "caller-owned" // in place: the value slices are the caller's as well
				}
			}
		}
	}
	if rq.LateBodyNs > 0 {
		time.Sleep(time.Duration(rq.LateBodyNs))
	}
	if rq.HoldBody && !concurrent {
		ex.Resp = ro
		ex.held = true
		return cancel
	}
	if resp.Body != nil {
		func() {
			defer func() {
				if r := recover(); r != nil {
					ex.Panic = fmt.Sprintf("body read: %v", r)
				}
			}()
			b, rerr := io.ReadAll(resp.Body)
			ro.Body = b
			if rerr != nil {
				ro.BodyErr = rerr.Error()
			}
			_ = resp.Body.Close()
		}()
	}
	ro.Trailer = resp.Trailer.Clone()
	ex.Resp = ro
	if rq.LegacyCancel == "post" {
		close(legacyCancel) // the classic "defer close(cancel)" of a caller that is done
	}
	if rq.ReuseReq {
		// the body is closed: the caller may now reuse / modify its request
		if rq.ReuseDelayNs > 0 {
			time.Sleep(time.Duration(rq.ReuseDelayNs))
		}
		ex.ReqReused = true
		for _, vs := range req.Header {
			for i := range vs {
				vs[i] = "reused" // in place
			}
		}
		req.Header.Set("X-Reused", "1")
		req.Header.Del("Cache-Control")
		for _, kv := range rq.ReuseSet {
			req.Header.Set(kv[0], SubstBytes(kv[1]))
		}
		req.URL.Path, req.URL.RawPath, req.URL.RawQuery = "/reused-by-caller", "", "reused=1"
		req.Method = "REUSED"
		if rq.Scribble {
			for i := 0; i < 3; i++ {
				resp.Header.Set("X-Scribble-Late", strconv.Itoa(i))
			}
		}
	}
	return cancel
}

// ---------------------------------------------------------------------------
// helpers for monitors

// TokOf returns the serial in the X-Tok header of a response (-1 if absent/invalid).
func TokOf(h http.Header) int {
	v := h.Get("X-Tok")
	if v == "" {
		return -1
	}
	n, err := strconv.Atoi(v)
	if err != nil {
		return -1
	}
	return n
}

// CallBySerial finds the origin call that produced a reply.
func (o *Obs) CallBySerial(s int) *Call {
	for _, c := range o.Calls {
		if c.Serial == s {
			return c
		}
	}
	return nil
}

// CallsOf lists the calls attributed to an exchange.
func (o *Obs) CallsOf(ex int) []*Call {
	var out []*Call
	for _, c := range o.Calls {
		if c.Ex == ex {
			out = append(out, c)
		}
	}
	return out
}

// FgCalls lists the completed foreground calls of an exchange: calls made on the caller's
// goroutine, or calls whose result ended up in the returned response.
func (o *Obs) FgCalls(ex *Exchange) []*Call {
	var out []*Call
	for _, c := range o.Calls {
		if c.Ex != ex.Idx || !c.Completed {
			continue
		}
		if c.Fg {
			out = append(out, c)
			continue
		}
		if ex.Resp != nil && c.EndSeq < ex.EndSeq && c.Kind == "resp" {
			if TokOf(ex.Resp.Header) == c.Serial || ex.Resp.Header.Get("X-Val") == strconv.Itoa(c.Serial) {
				out = append(out, c)
			}
		}
	}
	return out
}

// BgCalls lists the calls of an exchange that are not foreground calls.
func (o *Obs) BgCalls(ex *Exchange) []*Call {
	fg := map[int]bool{}
	for _, c := range o.FgCalls(ex) {
		fg[c.Serial] = true
	}
	var out []*Call
	for _, c := range o.Calls {
		if c.Ex == ex.Idx && !fg[c.Serial] {
			out = append(out, c)
		}
	}
	return out
}

// FromStore reports whether the response of ex is a copy of a reply produced outside this
// exchange's foreground calls; it returns that reply's call.
func (o *Obs) FromStore(ex *Exchange) (*Call, bool) {
	if ex.Resp == nil {
		return nil, false
	}
	s := TokOf(ex.Resp.Header)
	if s < 0 {
		// fall back to the body token
		s = ParseBodyToken(ex.Resp.Body)
	}
	if s < 0 {
		return nil, false
	}
	c := o.CallBySerial(s)
	if c == nil {
		return nil, false
	}
	for _, f := range o.FgCalls(ex) {
		if f.Serial == s {
			return c, false
		}
	}
	return c, true
}

// Validated304 returns the foreground 304 of the exchange, if any.
func (o *Obs) Validated304(ex *Exchange) *Call {
	for _, c := range o.FgCalls(ex) {
		if c.Kind == "resp" && c.Status == http.StatusNotModified {
			return c
		}
	}
	return nil
}

func B64(b []byte) string { return base64.StdEncoding.EncodeToString(b) }

// LimitFileSize lowers RLIMIT_FSIZE (soft) to n bytes and returns the function restoring it.
// Go ignores SIGXFSZ, so a write reaching the limit is cut short and fails with EFBIG.
func LimitFileSize(n uint64) func() {
	var old syscall.Rlimit
	if err := syscall.Getrlimit(syscall.RLIMIT_FSIZE, &old); err != nil {
		return func() {}
	}
	lim := old
	lim.Cur = n
	if lim.Cur > lim.Max {
		lim.Cur = lim.Max
	}
	_ = syscall.Setrlimit(syscall.RLIMIT_FSIZE, &lim)
	return func() { _ = syscall.Setrlimit(syscall.RLIMIT_FSIZE, &old) }
}

// Files lists the regular files under the world's cache directory (sorted, relative).
func listFiles(dir string) []string {
	var out []string
	_ = filepath.WalkDir(dir, func(p string, d os.DirEntry, err error) error {
		if err == nil && !d.IsDir() {
			out = append(out, p)
		}
		return nil
	})
	sort.Strings(out)
	return out
}

// corruptFile tampers with the raw bytes of one stored file (file-flip, file-trunc,
// file-append, file-swap, file-zero).
func (w *World) corruptFile(c *Corrupt) {
	files := listFiles(w.dir)
	if len(files) == 0 {
		return
	}
	f := files[((c.KeySel%len(files))+len(files))%len(files)]
	data, err := os.ReadFile(f)
	if err != nil {
		return
	}
	switch c.Kind {
	case "file-flip":
		if len(data) == 0 {
			return
		}
		k := ((c.Arg % len(data)) + len(data)) % len(data)
		data[k] ^= 0x01
	case "file-trunc":
		if len(data) == 0 {
			return
		}
		k := ((c.Arg % len(data)) + len(data)) % len(data)
		data = data[:k]
	case "file-append":
		data = append(data, []byte(c.Data)...)
	case "file-zero":
		data = nil
	case "file-plaintext":
		// the file is replaced wholesale by a well-formed unencrypted record
		data = []byte(c.Data)
	case "file-swap":
		g := files[(((c.KeySel+1+c.Arg)%len(files))+len(files))%len(files)]
		other, err := os.ReadFile(g)
		if err != nil || g == f {
			return
		}
		_ = os.WriteFile(g, data, 0o644)
		data = other
	}
	_ = os.WriteFile(f, data, 0o644)
}

// BodyFails reports whether reading the reply body to the end yields the injected error.
func (c *Call) BodyFails() bool {
	return (c.FailAt > 0 && c.Body != nil && c.FailAt-1 <= len(c.Body)) || c.StallAt > 0
}

// controlLoop is the scheduler of the controlled concurrent phase: whenever every goroutine
// of the bubble is parked it lets exactly one pending operation proceed, chosen by the
// scenario's schedule among the pending operations in canonical (task, label) order.
func (w *World) controlLoop(wg *sync.WaitGroup) {
	done := make(chan struct{})
	go func() { wg.Wait(); close(done) }()
	idle := 0
	step := 0
	for {
		synctest.Wait()
		w.mu.Lock()
		pend := w.pending
		w.mu.Unlock()
		if len(pend) == 0 {
			finished := false
			select {
			case <-done:
				finished = true
			default:
			}
			if finished && idle >= 12 {
				break
			}
			// nothing to schedule: tasks wait for virtual time (latency, timeouts)
			idle++
			if idle > 40 {
				break
			}
			time.Sleep(time.Second)
			continue
		}
		idle = 0
		sort.SliceStable(pend, func(i, j int) bool {
			if pend[i].task != pend[j].task {
				return pend[i].task < pend[j].task
			}
			return pend[i].label < pend[j].label
		})
		choice := 0
		if step < len(w.sc.Sched) {
			choice = ((w.sc.Sched[step] % len(pend)) + len(pend)) % len(pend)
		}
		step++
		p := pend[choice]
		w.obs.Alts = append(w.obs.Alts, len(pend))
		w.obs.Trace = append(w.obs.Trace, p.task+": "+p.label)
		w.mu.Lock()
		for i, q := range w.pending {
			if q == p {
				w.pending = append(w.pending[:i:i], w.pending[i+1:]...)
				break
			}
		}
		w.mu.Unlock()
		close(p.ch)
	}
	// release anything still parked and let the rest of the scenario run freely
	w.controlled.Store(false)
	w.mu.Lock()
	for _, p := range w.pending {
		close(p.ch)
	}
	w.pending = nil
	w.mu.Unlock()
}

// ---------------------------------------------------------------------------
// wire mode: a real http.Transport reads generated raw HTTP/1.x bytes from an in-memory pipe

func buildWire(rp *Reply, status int, reason string, hdr http.Header, body []byte, method string, serial int, nowNs int64) (head, payload []byte) {
	var b bytes.Buffer
	proto := "HTTP/1.1"
	shape := rp.Shape
	switch shape {
	case "http10":
		proto = "HTTP/1.0"
	case "h2":
		shape = "cl"
	case "h2nolen":
		shape = "chunked"
	case "nobody":
		shape = "cl"
	}
	fmt.Fprintf(&b, "%s %d %s\r\n", proto, status, reason)
	// header lines in the scripted order (X-Tok / X-Val last)
	written := map[string]bool{}
	for _, kv := range rp.Header {
		k := http.CanonicalHeaderKey(kv[0])
		if k == "Content-Length" && status != http.StatusNotModified {
			continue
		}
		fmt.Fprintf(&b, "%s: %s\r\n", k, subst(kv[1], serial, nowNs))
		written[k] = true
	}
	for _, k := range []string{"X-Tok", "X-Val"} {
		if v := hdr.Get(k); v != "" && !written[k] {
			fmt.Fprintf(&b, "%s: %s\r\n", k, v)
		}
	}
	noBody := body == nil || method == http.MethodHead
	switch {
	case noBody:
		if status != http.StatusNotModified && status/100 != 1 && status != 204 && method != http.MethodHead {
			b.WriteString("Content-Length: 0\r\n")
		}
		b.WriteString("\r\n")
		return b.Bytes(), nil
	case shape == "chunked":
		b.WriteString("Transfer-Encoding: chunked\r\n")
		if len(rp.Trailer) > 0 {
			b.WriteString("Trailer: ")
			for i, kv := range rp.Trailer {
				if i > 0 {
					b.WriteString(", ")
				}
				b.WriteString(kv[0])
			}
			b.WriteString("\r\n")
		}
		b.WriteString("\r\n")
		var p bytes.Buffer
		sizes := []int{1, 7, 4096, 3, 65536}
		rest := body
		for i := 0; len(rest) > 0; i++ {
			n := sizes[(i+int(rp.Body.Seed))%len(sizes)]
			if n > len(rest) {
				n = len(rest)
			}
			fmt.Fprintf(&p, "%x\r\n", n)
			p.Write(rest[:n])
			p.WriteString("\r\n")
			rest = rest[n:]
		}
		p.WriteString("0\r\n")
		for _, kv := range rp.Trailer {
			fmt.Fprintf(&p, "%s: %s\r\n", kv[0], subst(kv[1], serial, nowNs))
		}
		p.WriteString("\r\n")
		return b.Bytes(), p.Bytes()
	case shape == "close" || shape == "http10":
		if shape == "close" {
			b.WriteString("Connection: close\r\n")
		}
		b.WriteString("\r\n")
		return b.Bytes(), body
	default:
		fmt.Fprintf(&b, "Content-Length: %d\r\n\r\n", len(body))
		return b.Bytes(), body
	}
}

func (w *World) wireRoundTrip(req *http.Request, rp *Reply, status int, reason string, hdr http.Header, call *Call) (*http.Response, error) {
	head, payload := buildWire(rp, status, reason, hdr, call.Body, req.Method, call.Serial, w.now())
	// a failing body: the connection is cut after FailAt-1 payload bytes
	if rp.Body.FailAt > 0 && payload != nil {
		k := rp.Body.FailAt - 1
		if k < len(payload) {
			payload = payload[:k]
			if rp.Shape == "close" || rp.Shape == "http10" {
				// a close-delimited body cut short is indistinguishable from a complete shorter
				// body: that shorter body is what the origin "sent"
				call.Body = append([]byte(nil), payload...)
				call.FailAt = 0
			} else {
				call.FailAt = 1 // any cut inside a length-delimited or chunked body is a read error
			}
		} else {
			call.FailAt = 0
		}
	} else {
		call.FailAt = 0
	}
	dial := func(ctx context.Context, network, addr string) (net.Conn, error) {
		c1, c2 := net.Pipe()
		go func() {
			defer c2.Close()
			br := bufio.NewReader(c2)
			rq, err := http.ReadRequest(br)
			if err != nil {
				return
			}
			_, _ = io.Copy(io.Discard, rq.Body)
			if _, err := c2.Write(head); err != nil {
				return
			}
			if len(payload) > 0 {
				_, _ = c2.Write(payload)
			}
		}()
		return c1, nil
	}
	tr := &http.Transport{DisableKeepAlives: true, DisableCompression: true, DialContext: dial, DialTLSContext: dial}
	return tr.RoundTrip(req)
}
