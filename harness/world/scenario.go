// Package world executes generated scenarios against the real httpcache transport
// (public API only) inside a testing/synctest bubble and records everything an
// oracle needs: the origin call log, the store operation log and the client view.
package world

import (
	"crypto/sha256"
	"encoding/hex"
	"encoding/json"
	"os"
)

// Scenario is one generated case. It is a plain JSON value and doubles as the replay file.
type Scenario struct {
	Prop    string `json:"prop,omitempty"`    // property the scenario was generated for
	Backend string `json:"backend"`           // mem | fs | fsenc
	Logger  string `json:"logger,omitempty"`  // "" (discard) | debug
	SWRSet  bool   `json:"swr_set,omitempty"` // WithSWRTimeout passed?
	SWRNs   int64  `json:"swr_ns,omitempty"`  // value passed to WithSWRTimeout
	// Zone is the local time zone of the process that generated the case ("utc", "east",
	// "west"; "" = whatever the running process has): a replay runs under the same zone.
	Zone string `json:"zone,omitempty"`
	// SWRPre: values of earlier WithSWRTimeout options in the same option list (the last
	// option, SWRNs, is the one in force)
	SWRPre []int64 `json:"swr_pre,omitempty"`
	Steps  []Step  `json:"steps"`
	// Threads, if present, run concurrently after Steps (each thread issues its requests in order).
	Threads [][]*Req `json:"threads,omitempty"`
	// Wire: origin replies are rendered as raw HTTP/1.x bytes and delivered through a real
	// net/http.Transport over an in-memory pipe, instead of being handed over as ready-made
	// *http.Response values (so the cache sees exactly what a real transport produces).
	Wire bool `json:"wire,omitempty"`
	// After: sequential steps executed once the concurrent phase has finished.
	After []Step `json:"after,omitempty"`
	// Controlled: the concurrent phase runs under a controller that parks every store and
	// origin operation and lets exactly one proceed at a time; Sched picks, at the i-th decision,
	// the (Sched[i] mod #pending)-th pending operation in canonical order (0 once exhausted).
	Controlled bool  `json:"controlled,omitempty"`
	Sched      []int `json:"sched,omitempty"`
	// Faults is the store fault plan: the n-th store operation (0-based, counted over the
	// whole scenario, in the order they reach the driver.Conn) is altered.
	Faults []Fault `json:"faults,omitempty"`
	Note   string  `json:"note,omitempty"`
	// Store is a backend-level operation sequence (C14); Steps is empty then.
	Store *StoreCase `json:"store,omitempty"`
	// Case carries property-specific case data for checks that do not run request histories.
	Case json.RawMessage `json:"case,omitempty"`
	// Twin is a second scenario that must behave identically (metamorphic checks, C12).
	Twin *Scenario `json:"twin,omitempty"`
}

// Step is one action of the (sequential) client.
type Step struct {
	Op      string   `json:"op"`               // sleep | req | reopen | corrupt
	DurNs   int64    `json:"dur_ns,omitempty"` // sleep
	Req     *Req     `json:"req,omitempty"`
	Corrupt *Corrupt `json:"corrupt,omitempty"`
}

// Req is a client request together with the origin's script for that exchange.
type Req struct {
	Method string      `json:"method"`
	URL    string      `json:"url"`
	Header [][2]string `json:"header,omitempty"`
	// CancelNs: 0 = the caller's context is never cancelled; -1 = cancelled before the call;
	// >0 = cancelled that long after the call started.
	CancelNs int64 `json:"cancel_ns,omitempty"`
	// Uncond is the origin's answer to a request without If-None-Match/If-Modified-Since,
	// Cond (optional) the answer to one that carries either. Bg (optional) overrides both
	// for calls not made on the caller's goroutine (background revalidation).
	// TraceID, if set, is attached to the request context with httpcache.ContextWithTraceID.
	TraceID string `json:"trace_id,omitempty"`
	// DeadlineNs > 0 gives the caller's context a deadline that long after the call starts.
	DeadlineNs int64 `json:"deadline_ns,omitempty"`
	// HoldBody: the body of the response is read only at the end of the scenario.
	HoldBody bool `json:"hold_body,omitempty"`
	// Client behaviour after RoundTrip returned (used by the concurrency checks): scribble on
	// the returned header map, read the body late, mutate the own request after closing the body.
	Scribble   bool  `json:"scribble,omitempty"`
	LateBodyNs int64 `json:"late_body_ns,omitempty"`
	ReuseReq   bool  `json:"reuse_req,omitempty"`
	// ReuseSet: header fields the caller sets on its own request when it reuses it (with
	// ReuseReq), ReuseDelayNs how long after closing the body it does so.
	ReuseSet     [][2]string `json:"reuse_set,omitempty"`
	ReuseDelayNs int64       `json:"reuse_delay_ns,omitempty"`
	// SameObj > 0: the caller sends the very http.Request object it used in step SameObj-1
	// again (a retry loop does that); Method, URL and Header of this Req are then those of
	// that step.
	SameObj int `json:"same_obj,omitempty"`
	// DialVia: the request is built like a reverse proxy's: URL.Host is this address while
	// Request.Host carries the authority of URL (the target URI is still URL).
	DialVia string `json:"dial_via,omitempty"`
	// OpaqueForm: the http.Request spells its target in URL.Opaque: 1 = the path
	// ("/p%2Fq"), 2 = "//authority/path", 3 = "scheme://authority/path" (the target URI is
	// still URL).
	OpaqueForm int `json:"opaque_form,omitempty"`
	// HostOverride: Request.Host is set to this while URL.Opaque (forms 2 and 3) names the
	// authority on the request line - which is the one that counts (RFC 9112 §3.2.2: with the
	// absolute form the Host field is ignored).
	HostOverride string `json:"host_override,omitempty"`
	// Via2: the request goes through a second transport that is open on the same store at the
	// same time (another component of the program, another process): nothing the first one has
	// written is hidden from it, and the other way round.
	Via2 bool `json:"via2,omitempty"`
	// BodyLen > 0: the request carries a body of that many bytes (known length).
	BodyLen int `json:"body_len,omitempty"`
	// EmptyMethod: the request is sent with Method "" (which net/http defines as GET).
	EmptyMethod bool `json:"empty_method,omitempty"`
	// Rootless: the http.Request's URL.Path lacks its leading slash (what URL.JoinPath returns
	// for a base without a path); URL.String() - the target URI - is still URL.
	Rootless bool `json:"rootless,omitempty"`
	// StaleRawPath: URL.RawPath holds a hint that is not an encoding of URL.Path (the caller
	// assigned Path after parsing, as path.Join on a parsed base does); net/url ignores such a
	// hint, so the target URI is still URL.
	StaleRawPath bool `json:"stale_raw_path,omitempty"`
	// NilReqHeader: the caller's request has no header map at all (http.Request{Method, URL}).
	NilReqHeader bool `json:"nil_req_header,omitempty"`
	// LegacyCancel: the request carries a Request.Cancel channel (as http.Client sets for its
	// Timeout): "pre" = already closed when RoundTrip is called, "post" = closed by the caller
	// once it has read and closed the response body, "open" = never closed.
	LegacyCancel string `json:"legacy_cancel,omitempty"`
	Uncond       Reply  `json:"uncond"`
	Cond         *Reply `json:"cond,omitempty"`
	Bg           *Reply `json:"bg,omitempty"`
}

// Reply describes what the scripted origin does for one call.
type Reply struct {
	Kind      string      `json:"kind"` // resp | err | hang
	LatencyNs int64       `json:"latency_ns,omitempty"`
	// DeclLen > 0: the length the origin declares (Response.ContentLength and the
	// Content-Length field) whatever the body then delivers - an origin that announces more
	// than it sends before the stream ends (shapes cl / h2 only)
	DeclLen int64 `json:"decl_len,omitempty"`
	Status    int         `json:"status,omitempty"`
	Reason    string      `json:"reason,omitempty"`
	Shape     string      `json:"shape,omitempty"` // cl (default) | chunked | close | http10 | h2 | h2nolen | nobody
	Header    [][2]string `json:"header,omitempty"`
	Trailer   [][2]string `json:"trailer,omitempty"`
	Body      Body        `json:"body"`
	NoTok     bool        `json:"no_tok,omitempty"` // do not add the X-Tok header / body token
	// RespReqWithout: the upstream is a middleware that forwards a rewritten copy of the request
	// (without this header field) and, like net/http, reports that copy in Response.Request.
	RespReqWithout string `json:"resp_req_without,omitempty"`
	// NilHeader: the upstream hands back a response whose Header map is nil (no fields, no token).
	NilHeader bool `json:"nil_header,omitempty"`
	// IgnoreCtx: the origin answers whatever happens to the request's context (an upstream that
	// does not watch the context, or whose answer was complete just before the context ended).
	IgnoreCtx bool `json:"ignore_ctx,omitempty"`
}

// Body describes the reply body. The origin expands it deterministically.
type Body struct {
	Len    int    `json:"len"`
	Class  string `json:"class,omitempty"` // "" (filler 'x') | rand | crlf | nul | httpish | meta
	Seed   uint64 `json:"seed,omitempty"`
	FailAt int    `json:"fail_at,omitempty"` // >0: the reader fails (sticky) after FailAt-1 bytes; 0 = never
	// StallAt > 0: after StallAt-1 bytes the reader blocks - like the body of a real
	// http.Transport response whose peer stops sending - until the request's context ends
	// (it then returns the context's error) or the body is closed.
	StallAt int `json:"stall_at,omitempty"`
	// PauseAt > 0: the bytes from PauseAt-1 on arrive one second after those before them (a
	// reply that is streamed); the read in between waits like a read from a connection.
	PauseAt int `json:"pause_at,omitempty"`
	// ShortBy > 0: the body yields that many bytes fewer than its declared Content-Length and
	// then a clean EOF (an upstream RoundTripper that builds or rewrites responses can do that;
	// http.Transport would report io.ErrUnexpectedEOF).
	ShortBy int `json:"short_by,omitempty"`
	// CloseErr: the body delivers all its bytes and a clean EOF, but its Close reports an error.
	CloseErr bool `json:"close_err,omitempty"`
}

// Fault alters one store operation.
type Fault struct {
	At   int    `json:"at"`   // index of the store operation
	Kind string `json:"kind"` // err | notexist | trunc | flip | empty | const
	Arg  int    `json:"arg,omitempty"`
	Data string `json:"data,omitempty"` // for const
}

// Corrupt tampers with stored bytes directly (bypassing the transport).
type Corrupt struct {
	KeySel int    `json:"key_sel"` // index into the sorted live key list (mod len)
	Kind   string `json:"kind"`    // trunc | flip | empty | const | delete
	Arg    int    `json:"arg,omitempty"`
	Data   string `json:"data,omitempty"`
}

func (s *Scenario) JSON() []byte {
	b, _ := json.MarshalIndent(s, "", " ")
	return b
}

// Hash identifies a scenario for distinct counting.
func (s *Scenario) Hash() string {
	b, _ := json.Marshal(s)
	h := sha256.Sum256(b)
	return hex.EncodeToString(h[:8])
}

func Load(path string) (*Scenario, error) {
	b, err := os.ReadFile(path)
	if err != nil {
		return nil, err
	}
	var s Scenario
	if err := json.Unmarshal(b, &s); err != nil {
		return nil, err
	}
	return &s, nil
}

func H(k, v string) [2]string { return [2]string{k, v} }

// StoreCase is a generated operation sequence against one backend configuration.
type StoreCase struct {
	Backend string        `json:"backend"` // mem | fs | fsenc
	Ops     []StoreOpSpec `json:"ops"`
}

// StoreOpSpec is one backend operation. Keys are raw bytes (base64 in JSON).
type StoreOpSpec struct {
	Op      string `json:"op"` // set | get | delete | keys | reopen | set-scribble | get-scribble | api-get | api-delete | api-list
	Key     []byte `json:"key,omitempty"`
	ValLen  int    `json:"val_len,omitempty"`
	ValSeed uint64 `json:"val_seed,omitempty"`
}

// ExpandValue deterministically expands a value spec.
func ExpandValue(n int, seed uint64) []byte {
	return expandBody(Body{Len: n, Class: "rand", Seed: seed}, 0, true)
}
