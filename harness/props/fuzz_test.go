package props

import (
	"bytes"
	"errors"
	"net/url"
	"os"
	"path/filepath"
	"strings"
	"testing"

	"github.com/bartventer/httpcache/store/driver"
	"github.com/bartventer/httpcache/store/fscache"

	"verif/harness/gen"
	"verif/harness/oracle"
	"verif/harness/world"
)

func fuzzableURL(s string) bool {
	if len(s) > 400 {
		return false
	}
	u, err := url.Parse(s)
	if err != nil || u.Opaque != "" || u.Host == "" {
		return false
	}
	if u.Scheme != "http" && u.Scheme != "https" {
		return false
	}
	// a host a client could connect to: non-empty, and a colon only inside an IP-literal
	hn := u.Hostname()
	if hn == "" || (strings.Contains(hn, ":") && !strings.HasPrefix(u.Host, "[")) || strings.ContainsAny(hn, "[]") {
		return false
	}
	if p := u.Port(); p == "" && strings.HasSuffix(u.Host, ":") && strings.Count(u.Host, ":") > 1 && !strings.HasPrefix(u.Host, "[") {
		return false
	}
	// serialising and re-parsing must be stable (the harness logs the serialised form)
	if u2, err := url.Parse(u.String()); err != nil || u2.String() != u.String() || u2.Host != u.Host {
		return false
	}
	// what http.NewRequest accepts
	for i := 0; i < len(s); i++ {
		if s[i] < 0x20 || s[i] == 0x7f {
			return false
		}
	}
	return true
}

// FuzzC03 stores a fresh reply for URI a and requests URI b: b may only be answered with a's
// reply if the two are not surely distinct (same oracle as TestC03).
func FuzzC03(f *testing.F) {
	seeds := [][2]string{
		{"http://example.com/", "http://EXAMPLE.com:80/"},
		{"http://example.com/%7Euser", "http://example.com/~user"},
		{"http://example.com/a/./b/../c", "http://example.com/a/c"},
		{"http://[::1]:8080/", "http://[::1:8080]/"},
		{"http://a.test/?q=%E9", "http://a.test/?q=é"},
		{"http://a.test/..//x", "http://a.test/x"},
		{"https://a.test:443/x?y#z", "https://a.test/x?y"},
		{"http://a.test./", "http://a.test/"},
		{"http://u:p@a.test/%2F", "http://a.test//"},
		{"http://a.test/?q=\xe9", "http://a.test/?q=\xef\xbf\xbd"},
		{"http://a.test/\xe9?\xff", "http://a.test/%E9?\xfe"},
	}
	for _, s := range seeds {
		f.Add(s[0], s[1])
	}
	f.Fuzz(func(t *testing.T, a, b string) {
		if !fuzzableURL(a) || !fuzzableURL(b) {
			t.Skip()
		}
		mk := func(u string) world.Step {
			rq := &world.Req{Method: "GET", URL: u}
			rq.Uncond = world.Reply{Kind: "resp", Status: 200, Body: world.Body{Len: 20}, Header: [][2]string{gen.H("Date", "$T+0"), gen.H("Cache-Control", "max-age=100000"), gen.H("Etag", `"v$S"`)}}
			rq.Cond = &rq.Uncond
			return gen.ReqStep(rq)
		}
		sc := &world.Scenario{Prop: "C03", Backend: "mem", Steps: []world.Step{mk(a), mk(b), mk(a)}}
		obs := world.Run(t, sc)
		if obs.Fatal != "" {
			t.Skip(obs.Fatal)
		}
		if res := oracle.C03(obs); len(res.Violations) > 0 {
			t.Fatalf("%s", res.Violations[0].String())
		}
	})
}

var fuzzDirN int

// FuzzC14 checks the single-key round trip Set -> Keys -> Get -> Delete on the file-system
// backends for arbitrary key and value bytes, next to a fixed neighbour key.
func FuzzC14(f *testing.F) {
	f.Add([]byte("http://a.test/"), []byte("v"), false)
	f.Add([]byte("http://a.test/#0"), []byte(""), true)
	f.Add(bytes.Repeat([]byte("a"), 36), []byte("x"), false)
	f.Add(bytes.Repeat([]byte("a"), 216), []byte("x"), false)
	f.Add(bytes.Repeat([]byte{0xff, 0x00, '/'}, 100), []byte("y"), true)
	f.Add([]byte(".."), []byte("z"), false)
	f.Fuzz(func(t *testing.T, key, val []byte, enc bool) {
		if len(key) == 0 || len(key) > 3000 || len(val) > 1<<16 {
			t.Skip()
		}
		fuzzDirN++
		dir := filepath.Join(world.ScratchRoot(), "fz14")
		_ = os.RemoveAll(dir)
		_ = os.MkdirAll(dir, 0o755)
		defer os.RemoveAll(dir)
		opts := []fscache.Option{fscache.WithBaseDir(dir)}
		if enc {
			opts = append(opts, fscache.WithEncryption(c14EncKey))
		}
		c, err := fscache.Open("app", opts...)
		if err != nil {
			t.Skip(err.Error())
		}
		k := string(key)
		neighbour := k + "#0"
		if err := c.Set(neighbour, []byte("n")); err != nil {
			t.Fatalf("Set(neighbour): %v", err)
		}
		if err := c.Set(k, val); err != nil {
			t.Fatalf("Set: %v", err)
		}
		got, err := c.Get(k)
		if err != nil || !bytes.Equal(got, val) {
			t.Fatalf("Get after Set: %d bytes, err=%v (want %d bytes)", len(got), err, len(val))
		}
		if n, err := c.Get(neighbour); err != nil || string(n) != "n" {
			t.Fatalf("neighbour damaged: %q %v", n, err)
		}
		keys, err := c.Keys("")
		if err != nil {
			t.Fatalf("Keys: %v", err)
		}
		found := 0
		for _, x := range keys {
			if x == k {
				found++
			}
		}
		if found != 1 || len(keys) != 2 {
			t.Fatalf("Keys lists the key %d times among %d keys", found, len(keys))
		}
		if err := c.Delete(k); err != nil {
			t.Fatalf("Delete: %v", err)
		}
		if _, err := c.Get(k); !errors.Is(err, driver.ErrNotExist) {
			t.Fatalf("Get after Delete: %v", err)
		}
		if n, err := c.Get(neighbour); err != nil || string(n) != "n" {
			t.Fatalf("neighbour damaged by Delete: %q %v", n, err)
		}
	})
}
