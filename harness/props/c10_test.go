package props

import (
	"fmt"
	"strings"
	"testing"

	"pgregory.net/rapid"

	"verif/harness/gen"
	"verif/harness/oracle"
	"verif/harness/world"
)

func withFaults(sc *world.Scenario, fs ...world.Fault) *world.Scenario {
	cp := *sc
	cp.Faults = fs
	return &cp
}

// execC10: run the base history fault-free, with the debug logger (differential), and then
// with every single-fault placement for the fault kinds chosen for this case.
func execC10(t *testing.T, sc *world.Scenario) (*oracle.Result, string) {
	total := oracle.NewResult()
	merge := func(res *oracle.Result, replay *world.Scenario) bool {
		total.Evals++
		for l, n := range res.Labels {
			total.Labels[l] += n
		}
		total.Unspecified += res.Unspecified
		if res.NonTrivial {
			total.NonTrivial = true
		}
		if len(res.Violations) > 0 {
			total.Violations = res.Violations
			total.Replay = replay
			return false
		}
		return true
	}
	if len(sc.Faults) > 0 || sc.Logger != "" {
		// a concrete replay: run exactly this
		obs := world.Run(t, sc)
		if p := oracle.HarnessProblem(obs); p != "" {
			return nil, p
		}
		merge(oracle.C10(obs), sc)
		total.Evals = 1
		return total, ""
	}
	base := world.Run(t, sc)
	if p := oracle.HarnessProblem(base); p != "" {
		return nil, p
	}
	if !merge(oracle.C10(base), sc) {
		return total, ""
	}
	// logger differential: debug (every logging path) and one other level / handler
	va := oracle.Vector(base)
	logKinds := []string{"debug", "info", "warn", "error", "text"}
	hsum := 0
	for _, c := range sc.Hash() {
		hsum += int(c)
	}
	for _, lk := range []string{"debug", logKinds[1+hsum%4]} {
		dbg := *sc
		dbg.Logger = lk
		dobs := world.Run(t, &dbg)
		if !merge(oracle.C10(dobs), &dbg) {
			return total, ""
		}
		vb := oracle.Vector(dobs)
		if strings.Join(va, "\n") != strings.Join(vb, "\n") {
			total.Fail("C10", "logging-changes-behaviour", -1, "the same history behaves differently with a %s logger:\n discard: %v\n %s:   %v", lk, va, lk, vb)
			total.Replay = &dbg
			return total, ""
		}
		if dobs.LogBytes > 0 {
			total.Label(lk + "-log-written")
		}
	}
	nops := len(base.Ops)
	kinds := pickKinds(sc, 4)
	if thorough() {
		kinds = gen.FaultKinds
	}
	for at := 0; at < nops; at++ {
		for _, k := range kinds {
			f := k
			f.At = at
			fsc := withFaults(sc, f)
			if at%2 == 1 {
				fsc.Logger = logKinds[(at/2+hsum)%len(logKinds)] // half of the placements run with logging on
			}
			obs := world.Run(t, fsc)
			if p := oracle.HarnessProblem(obs); p != "" {
				continue
			}
			total.NTKeys = append(total.NTKeys, fmt.Sprintf("%s/%d/%s/%d/%s", sc.Hash(), at, f.Kind, f.Arg, f.Data))
			if !merge(oracle.C10(obs), fsc) {
				return total, ""
			}
			if fsc.Logger != "" && at%4 == 1 {
				// the same failing store, once more without the logger: logging must not change
				// what a failure does either (the error paths are where the cache logs most)
				plain := withFaults(sc, f)
				pobs := world.Run(t, plain)
				if oracle.HarnessProblem(pobs) == "" {
					va, vb := oracle.Vector(pobs), oracle.Vector(obs)
					if strings.Join(va, "\n") != strings.Join(vb, "\n") {
						total.Fail("C10", "logging-changes-behaviour", -1, "the same history with the same store fault (%s at op %d) behaves differently with a %s logger:\n discard: %v\n %s:   %v", f.Kind, at, fsc.Logger, va, fsc.Logger, vb)
						total.Replay = fsc
						return total, ""
					}
					total.Label("faulted-logger-differential")
				}
			}
		}
	}
	// pairs of placements for short histories (thorough tier)
	if thorough() && nops <= 12 {
		pk := pickKinds(sc, 3)
		for a := 0; a < nops; a++ {
			for b := a + 1; b < nops; b++ {
				for _, ka := range pk {
					for _, kb := range pk {
						fa, fb := ka, kb
						fa.At, fb.At = a, b
						fsc := withFaults(sc, fa, fb)
						obs := world.Run(t, fsc)
						if p := oracle.HarnessProblem(obs); p != "" {
							continue
						}
						if !merge(oracle.C10(obs), fsc) {
							return total, ""
						}
					}
				}
			}
		}
	}
	total.NonTrivial = true
	return total, ""
}

// pickKinds chooses n fault kinds as a function of the scenario (so that replays agree).
func pickKinds(sc *world.Scenario, n int) []world.Fault {
	h := sc.Hash()
	var out []world.Fault
	seed := 0
	for i := 0; i < len(h); i++ {
		seed = seed*31 + int(h[i])
	}
	if seed < 0 {
		seed = -seed
	}
	out = append(out, gen.FaultKinds[0]) // a plain error is always among them
	for i := 1; i < n; i++ {
		out = append(out, gen.FaultKinds[(seed+i*7)%len(gen.FaultKinds)])
	}
	return out
}

var checkC10 = Check{Prop: "C10", Gen: gen.C10Base, Exec: execC10}

func init() { register(checkC10) }

func TestC10(t *testing.T) { RunCheck(t, checkC10) }

// FuzzC10 feeds arbitrary bytes as the stored index and as the stored entry.
func FuzzC10(f *testing.F) {
	for _, k := range gen.FaultKinds {
		if k.Kind == "const" {
			f.Add([]byte(k.Data), true)
			f.Add([]byte(k.Data), false)
		}
	}
	f.Add([]byte(`[{"id":"http://a.test/fz#0","vary":"","vary_resolved":{},"received_at":"2000-01-01T00:00:00Z"}]`), true)
	f.Add([]byte("http://a.test/fz#0\t2000-01-01T00:00:00Z\t2000-01-01T00:00:00Z\nHTTP/1.1 200 OK\r\nCache-Control: max-age=60\r\nContent-Length: 3\r\nX-Tok: 1\r\n\r\nabc"), false)
	f.Fuzz(func(t *testing.T, data []byte, index bool) {
		sc := &world.Scenario{Prop: "C10", Backend: "mem"}
		u := "http://a.test/fz"
		mk := func(cc string) world.Step {
			rq := &world.Req{Method: "GET", URL: u}
			if cc != "" {
				rq.Header = [][2]string{gen.H("Cache-Control", cc)}
			}
			rq.Uncond = world.Reply{Kind: "resp", Status: 200, Body: world.Body{Len: 12}, Header: [][2]string{gen.H("Date", "$T+0"), gen.H("Cache-Control", "max-age=60"), gen.H("Etag", `"v$S"`)}}
			rq.Cond = gen.Simple304()
			return gen.ReqStep(rq)
		}
		sel := 1
		if index {
			sel = 0
		}
		sc.Steps = []world.Step{mk(""),
			{Op: "corrupt", Corrupt: &world.Corrupt{KeySel: sel, Kind: "const", Data: string(data)}},
			mk(""), mk("only-if-cached"), mk("no-cache"), gen.SleepStep(100), mk("")}
		sc.Logger = "debug"
		obs := world.Run(t, sc)
		if obs.Fatal != "" {
			t.Skip(obs.Fatal)
		}
		if res := oracle.C10(obs); len(res.Violations) > 0 {
			t.Fatalf("%s\nstored bytes: %q index=%v", res.Violations[0].String(), data, index)
		}
	})
}

var _ = rapid.Check
