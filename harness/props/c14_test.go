package props

import (
	"bytes"
	"encoding/json"
	"errors"
	"fmt"
	"net/http"
	"net/http/httptest"
	"net/url"
	"os"
	"path/filepath"
	"sort"
	"strings"
	"sync/atomic"
	"testing"
	"unicode/utf8"

	"pgregory.net/rapid"

	"github.com/bartventer/httpcache/store"
	"github.com/bartventer/httpcache/store/driver"
	"github.com/bartventer/httpcache/store/expapi"
	"github.com/bartventer/httpcache/store/fscache"
	"github.com/bartventer/httpcache/store/memcache"

	"verif/harness/gen"
	"verif/harness/oracle"
	"verif/harness/world"
)

const c14EncKey = "6S-Ks2YYOW0xMvTzKSv6QD30gZeOi1c6Ydr-As5csWk="

var c14Dir atomic.Int64

type keyLister interface {
	Keys(prefix string) ([]string, error)
}

var c14Lens = []int{1, 2, 35, 36, 37, 47, 48, 49, 71, 72, 73, 107, 108, 109, 143, 144, 145, 179, 180, 181, 190, 191, 192, 193, 215, 216, 217, 251, 252, 253, 287, 288, 289, 1000, 4000}

var c14Stems = [][]byte{
	[]byte("http://a.test/" + strings.Repeat("abcdefghijklmnopqrstuvwxyz0123456789/", 120)),
	[]byte("http://a.test/p/r~1%2Fx?q=1&z=%C3%A9#" + strings.Repeat("1234567890", 450)),
	bytes.Repeat([]byte{0x00, 0xff, 0x2f, 0x2e, 0x2e, 0x2f, 0x80, 0x0a, 0x25, 0x5c}, 450),
	bytes.Repeat([]byte("././../"), 640),
}

func c14Key(t *rapid.T, label string) []byte {
	switch gen.Weighted(t, label+"-kind", 70, 10, 10, 10) {
	case 1:
		return []byte(gen.Pick(t, label+"-url", "http://a.test/", "http://a.test/#0", "http://a.test/#123", "https://b.test/x?y=1", ".", "..", "a/b", "a", "/", "%2F", ""))
	case 2:
		n := rapid.IntRange(0, 6).Draw(t, label+"-rn")
		b := make([]byte, n)
		for i := range b {
			b[i] = byte(rapid.IntRange(0, 255).Draw(t, label+"-rb"+fmt.Sprint(i)))
		}
		return b
	case 3:
		// a key that extends another pool key by a few bytes
		stem := c14Stems[rapid.IntRange(0, len(c14Stems)-1).Draw(t, label+"-stem2")]
		n := gen.Pick(t, label+"-len2", c14Lens...)
		ext := rapid.IntRange(1, 60).Draw(t, label+"-ext")
		return append([]byte(nil), stem[:n+ext]...)
	}
	stem := c14Stems[rapid.IntRange(0, len(c14Stems)-1).Draw(t, label+"-stem")]
	n := gen.Pick(t, label+"-len", c14Lens...)
	return append([]byte(nil), stem[:n]...)
}

func genC14(t *rapid.T) *world.Scenario {
	sc := &world.Scenario{Prop: "C14", Store: &world.StoreCase{Backend: gen.Backend(t, "backend")}}
	maxOps := 40
	if thorough() {
		maxOps = 200
	}
	n := rapid.IntRange(3, maxOps).Draw(t, "nops")
	// a small per-case key pool so that keys are revisited
	pool := make([][]byte, rapid.IntRange(2, 6).Draw(t, "npool"))
	for i := range pool {
		pool[i] = c14Key(t, fmt.Sprintf("k%d", i))
	}
	sizes := []int{0, 1, 2, 10, 100, 4096, 65536}
	if thorough() {
		sizes = append(sizes, 1<<20)
	}
	for i := 0; i < n; i++ {
		lbl := fmt.Sprintf("o%d", i)
		op := world.StoreOpSpec{Key: pool[rapid.IntRange(0, len(pool)-1).Draw(t, lbl+"-key")]}
		switch gen.Weighted(t, lbl+"-op", 30, 22, 14, 10, 6, 4, 4, 4, 3, 3, 2) {
		case 10:
			op.Op = "plant-tmp" // what a writer killed in mid-write leaves behind
			op.Key = nil
		case 0:
			op.Op = "set"
		case 1:
			op.Op = "get"
		case 2:
			op.Op = "delete"
		case 3:
			op.Op = "keys"
			if gen.Pct(t, lbl+"-pfx", 60) {
				k := op.Key
				op.Key = k[:rapid.IntRange(0, len(k)).Draw(t, lbl+"-pfxlen")]
			} else {
				op.Key = nil
			}
		case 4:
			op.Op = "reopen"
		case 5:
			op.Op = "set-scribble"
		case 6:
			op.Op = "get-scribble"
		case 7:
			op.Op = "api-get"
		case 8:
			op.Op = "api-delete"
		case 9:
			op.Op = "api-list"
			if gen.Pct(t, lbl+"-apfx", 50) {
				k := op.Key
				op.Key = k[:rapid.IntRange(0, len(k)).Draw(t, lbl+"-apfxlen")]
			} else {
				op.Key = nil
			}
		}
		if op.Op == "set" || op.Op == "set-scribble" {
			op.ValLen = gen.Pick(t, lbl+"-vlen", sizes...)
			if gen.Pct(t, lbl+"-vexact", 30) {
				op.ValLen = rapid.IntRange(0, 300).Draw(t, lbl+"-vlenx")
			}
			op.ValSeed = uint64(rapid.IntRange(1, 1<<30).Draw(t, lbl+"-vseed"))
		}
		sc.Store.Ops = append(sc.Store.Ops, op)
	}
	return sc
}

type c14Backend struct {
	kind string
	dir  string
	conn driver.Conn
	mux  *http.ServeMux
}

func (b *c14Backend) open() error {
	switch b.kind {
	case "mem":
		if b.conn == nil {
			b.conn = memcache.Open()
		}
	case "fs":
		c, err := fscache.Open("app", fscache.WithBaseDir(b.dir))
		if err != nil {
			return err
		}
		b.conn = c
	case "fsenc":
		c, err := fscache.Open("app", fscache.WithBaseDir(b.dir), fscache.WithEncryption(c14EncKey))
		if err != nil {
			return err
		}
		b.conn = c
	case "fsopt", "fsencopt":
		c, err := store.Open(b.dsn())
		if err != nil {
			return err
		}
		b.conn = c
	}
	return nil
}

func (b *c14Backend) dsn() string {
	switch b.kind {
	case "fs":
		return "fscache://" + b.dir + "?appname=app"
	case "fsenc":
		return "fscache://" + b.dir + "?appname=app&encrypt=on&encrypt_key=" + url.QueryEscape(c14EncKey)
	case "fsopt":
		return "fscache://" + b.dir + "?appname=app&update_mtime=on&timeout=90s&connect_timeout=45s"
	case "fsencopt":
		return "fscache://" + b.dir + "?appname=app&update_mtime=on&timeout=90s&connect_timeout=45s&encrypt=aesgcm&encrypt_key=" + url.QueryEscape(c14EncKey)
	}
	return ""
}

func (b *c14Backend) api(method, key string, list bool, prefix string) (int, []byte) {
	target := "/debug/httpcache"
	q := url.Values{"dsn": {b.dsn()}}
	if list {
		q.Set("prefix", prefix)
	} else {
		target += "/" + url.PathEscape(key)
	}
	req := httptest.NewRequest(method, target+"?"+q.Encode(), nil)
	rec := httptest.NewRecorder()
	b.mux.ServeHTTP(rec, req)
	return rec.Code, rec.Body.Bytes()
}

func keyClass(n int) string {
	switch {
	case n == 0:
		return "empty"
	case n < 36:
		return "<36"
	case n%36 == 0:
		return "36k"
	case n <= 191:
		return "<=191"
	case n <= 255:
		return "192-255"
	case n <= 1000:
		return "256-1000"
	}
	return ">1000"
}

func execC14(t *testing.T, sc *world.Scenario) (*oracle.Result, string) {
	r := oracle.NewResult()
	if sc.Store == nil {
		return r, "scenario has no store case"
	}
	b := &c14Backend{kind: sc.Store.Backend, mux: http.NewServeMux()}
	expapi.Register(expapi.WithServeMux(b.mux))
	if b.kind != "mem" {
		b.dir = filepath.Join(world.ScratchRoot(), fmt.Sprintf("c14-%d", c14Dir.Add(1)))
		if err := os.MkdirAll(b.dir, 0o755); err != nil {
			return r, err.Error()
		}
		defer os.RemoveAll(b.dir)
	}
	if err := b.open(); err != nil {
		return r, "open: " + err.Error()
	}
	model := map[string][]byte{}
	fail := func(i int, kind, format string, a ...any) {
		op := sc.Store.Ops[i]
		r.Fail("C14", kind, i, "op #%d %s key(len %d)=%q on %s: %s", i, op.Op, len(op.Key), trunc(op.Key), b.kind, fmt.Sprintf(format, a...))
	}
	// results of earlier Gets stay what they were, whatever the backend does afterwards
	type heldResult struct {
		op        int
		got, want []byte
	}
	var held []heldResult
	checkHeld := func(i int) bool {
		for _, h := range held {
			if !bytes.Equal(h.got, h.want) {
				fail(i, "earlier-get-result-changed", "the %d bytes returned by the Get of op #%d changed after later operations (first difference at %d)", len(h.want), h.op, firstDiffBytes(h.got, h.want))
				return false
			}
		}
		return true
	}
	planted := 0
	sawOverwriteOrDelete, prefixPair := false, false
	keysSeen := map[string]bool{}
	for i, op := range sc.Store.Ops {
		key := string(op.Key)
		emptyKey := key == ""
		if op.Op != "keys" && op.Op != "api-list" && op.Op != "reopen" {
			for k := range keysSeen {
				if k != key && (strings.HasPrefix(k, key) || strings.HasPrefix(key, k)) && k != "" && key != "" {
					prefixPair = true
				}
			}
			keysSeen[key] = true
			r.Label("keylen:" + keyClass(len(key)))
		}
		r.Label("op:" + op.Op)
		switch op.Op {
		case "set", "set-scribble":
			val := world.ExpandValue(op.ValLen, op.ValSeed)
			want := append([]byte(nil), val...)
			if _, ok := model[key]; ok {
				sawOverwriteOrDelete = true
			}
			err := b.conn.Set(key, val)
			if err != nil {
				if emptyKey {
					r.Unspec("c14-empty-key-rejected")
					continue
				}
				fail(i, "set-failed:"+keyClass(len(key)), "Set returned %v (live keys: %s)", err, liveSummary(model))
				continue
			}
			if op.Op == "set-scribble" {
				for j := range val {
					val[j] ^= 0xa5
				}
			}
			model[key] = want
		case "get", "get-scribble":
			got, err := b.conn.Get(key)
			want, ok := model[key]
			switch {
			case ok && err != nil:
				fail(i, "get-failed:"+keyClass(len(key)), "Get of a live key returned %v", err)
			case ok && !bytes.Equal(got, want):
				fail(i, "get-wrong-bytes", "Get returned %d bytes, want %d (first difference at %d)", len(got), len(want), firstDiffBytes(got, want))
			case !ok && err == nil:
				fail(i, "get-resurrected", "Get of an absent key returned %d bytes", len(got))
			case !ok && !errors.Is(err, driver.ErrNotExist):
				if emptyKey {
					r.Unspec("c14-empty-key-error")
				} else {
					fail(i, "get-absent-error-kind:"+keyClass(len(key)), "Get of an absent key returned %v, which is not ErrNotExist", err)
				}
			}
			if op.Op == "get-scribble" && err == nil {
				for j := range got {
					got[j] ^= 0x5a
				}
			} else if err == nil && ok && len(held) < 16 {
				held = append(held, heldResult{op: i, got: got, want: append([]byte(nil), got...)})
			}
		case "delete":
			_, ok := model[key]
			err := b.conn.Delete(key)
			switch {
			case ok && err != nil:
				fail(i, "delete-failed:"+keyClass(len(key)), "Delete of a live key returned %v", err)
			case ok:
				delete(model, key)
				sawOverwriteOrDelete = true
			case !ok && err == nil:
				if !emptyKey {
					fail(i, "delete-absent-ok", "Delete of an absent key returned nil")
				}
			case !ok && !errors.Is(err, driver.ErrNotExist):
				if emptyKey {
					r.Unspec("c14-empty-key-error")
				} else {
					fail(i, "delete-absent-error-kind:"+keyClass(len(key)), "Delete of an absent key returned %v, which is not ErrNotExist", err)
				}
			}
		case "keys":
			kl, ok := b.conn.(keyLister)
			if !ok {
				r.Label("keys-unsupported")
				continue
			}
			got, err := kl.Keys(key)
			if err != nil {
				fail(i, "keys-failed", "Keys(%q) returned %v (live keys: %s)", trunc(op.Key), err, liveSummary(model))
				continue
			}
			if d := diffKeySets(got, model, key, false); d != "" {
				fail(i, "keys-wrong", "Keys(%q): %s", trunc(op.Key), d)
			}
		case "plant-tmp":
			if b.kind == "mem" {
				continue
			}
			planted++
			_ = os.WriteFile(filepath.Join(b.dir, "app", fmt.Sprintf(".tmp-leftover%d", planted)), []byte("partial write"), 0o644)
		case "reopen":
			if err := b.open(); err != nil {
				fail(i, "reopen-failed", "%v", err)
				return r, ""
			}
		case "api-get":
			if b.kind == "mem" || muxCannotAddress(key) {
				continue
			}
			code, body := b.api("GET", key, false, "")
			want, ok := model[key]
			switch {
			case ok && (code != 200 || !bytes.Equal(body, want)):
				fail(i, "api-get-wrong", "GET returned %d with %d bytes, want 200 with %d bytes", code, len(body), len(want))
			case !ok && code != 404:
				fail(i, "api-get-absent", "GET of an absent key returned %d %q", code, truncS(string(body)))
			}
		case "api-delete":
			if b.kind == "mem" || muxCannotAddress(key) {
				continue
			}
			code, body := b.api("DELETE", key, false, "")
			_, ok := model[key]
			switch {
			case ok && code != 204:
				fail(i, "api-delete-failed", "DELETE of a live key returned %d %q", code, truncS(string(body)))
			case ok:
				delete(model, key)
				sawOverwriteOrDelete = true
			case !ok && code != 404:
				fail(i, "api-delete-absent", "DELETE of an absent key returned %d %q", code, truncS(string(body)))
			}
		case "api-list":
			if b.kind == "mem" {
				continue
			}
			code, body := b.api("GET", "", true, key)
			if code != 200 {
				fail(i, "api-list-failed", "list returned %d %q (live keys: %s)", code, truncS(string(body)), liveSummary(model))
				continue
			}
			var out struct {
				Keys []string `json:"keys"`
			}
			if err := json.Unmarshal(body, &out); err != nil {
				fail(i, "api-list-bad-json", "%v", err)
				continue
			}
			if d := diffKeySets(out.Keys, model, key, true); d != "" {
				fail(i, "api-list-wrong", "%s", d)
			}
		}
		if len(r.Violations) > 0 {
			break
		}
		if !checkHeld(i) {
			break
		}
	}
	// final full scan
	if len(r.Violations) == 0 {
		ks := make([]string, 0, len(model))
		for k := range model {
			ks = append(ks, k)
		}
		sort.Strings(ks)
		for _, k := range ks {
			got, err := b.conn.Get(k)
			if err != nil || !bytes.Equal(got, model[k]) {
				r.Fail("C14", "final-scan:"+keyClass(len(k)), len(sc.Store.Ops), "final scan on %s: key(len %d)=%q: err=%v, %d bytes, want %d", b.kind, len(k), trunc([]byte(k)), err, len(got), len(model[k]))
				break
			}
		}
	}
	r.NonTrivial = sawOverwriteOrDelete && prefixPair
	r.Label("backend:" + b.kind)
	return r, ""
}

func diffKeySets(got []string, model map[string][]byte, prefix string, jsonCoerced bool) string {
	want := map[string]int{}
	for k := range model {
		if strings.HasPrefix(k, prefix) {
			if jsonCoerced {
				k = jsonCoerce(k)
			}
			want[k]++
		}
	}
	have := map[string]int{}
	for _, k := range got {
		have[k]++
	}
	for k, n := range want {
		if have[k] != n {
			return fmt.Sprintf("key(len %d)=%q listed %d times, want %d (listed %d keys, live with prefix %d)", len(k), trunc([]byte(k)), have[k], n, len(got), len(want))
		}
	}
	for k, n := range have {
		if want[k] != n {
			return fmt.Sprintf("key(len %d)=%q listed %d times, want %d", len(k), trunc([]byte(k)), n, want[k])
		}
	}
	return ""
}

func liveSummary(model map[string][]byte) string {
	var ls []string
	for k := range model {
		ls = append(ls, fmt.Sprintf("len%d", len(k)))
	}
	sort.Strings(ls)
	return strings.Join(ls, ",")
}

func trunc(b []byte) string {
	if len(b) > 40 {
		return string(b[:20]) + "..." + string(b[len(b)-12:])
	}
	return string(b)
}

func truncS(s string) string {
	if len(s) > 1500 {
		return s[:1500] + "..."
	}
	return s
}

func firstDiffBytes(a, b []byte) int {
	n := min(len(a), len(b))
	for i := 0; i < n; i++ {
		if a[i] != b[i] {
			return i
		}
	}
	if len(a) != len(b) {
		return n
	}
	return -1
}

var checkC14 = Check{Prop: "C14", Gen: genC14, Exec: execC14}

func init() { register(checkC14) }

func TestC14(t *testing.T) { RunCheck(t, checkC14) }

// muxCannotAddress: keys that net/http.ServeMux cannot deliver as the {key} path segment
// (path cleaning of "." and "..", the empty segment, and a lone escaped slash).
func muxCannotAddress(key string) bool {
	return key == "" || key == "." || key == ".." || key == "/"
}

// jsonCoerce mirrors encoding/json: every invalid UTF-8 byte becomes U+FFFD.
func jsonCoerce(k string) string {
	var b strings.Builder
	for i := 0; i < len(k); {
		r, size := utf8.DecodeRuneInString(k[i:])
		if r == utf8.RuneError && size == 1 {
			b.WriteString("\ufffd")
		} else {
			b.WriteString(k[i : i+size])
		}
		i += size
	}
	return b.String()
}

// TestC14Prefix enumerates EVERY key length in a range: a key of that length and a longer key
// starting with it are stored in both orders, read back, listed and deleted. Boundary lengths
// of the on-disk naming (whatever the fragment size is) cannot hide between sampled lengths.
func TestC14Prefix(t *testing.T) {
	maxLen := 720
	if thorough() {
		maxLen = 1600
	}
	seed := envInt("VERIF_SEED", 1)
	RunEnum(t, checkC14, func(yield func(*world.Scenario) bool) {
		for _, backend := range []string{"fs", "fsenc"} {
			if backend == "fsenc" && !thorough() && seed%2 == 0 {
				continue
			}
			stem := c14Stems[seed%len(c14Stems)]
			for n := 1; n <= maxLen; n++ {
				for _, ext := range []int{1, 37, 300} {
					k1 := append([]byte(nil), stem[:n]...)
					k2 := append([]byte(nil), stem[:n+ext]...)
					first, second := k1, k2
					if (n+ext+seed)%2 == 0 {
						first, second = k2, k1
					}
					sc := &world.Scenario{Prop: "C14", Store: &world.StoreCase{Backend: backend, Ops: []world.StoreOpSpec{
						{Op: "set", Key: first, ValLen: 5, ValSeed: 1}, {Op: "set", Key: second, ValLen: 7, ValSeed: 2},
						{Op: "get", Key: first}, {Op: "get", Key: second}, {Op: "keys"},
						{Op: "delete", Key: first}, {Op: "get", Key: second}, {Op: "set", Key: first, ValLen: 9, ValSeed: 3},
						{Op: "delete", Key: second}, {Op: "get", Key: first}, {Op: "keys", Key: first},
					}}}
					if !yield(sc) {
						return
					}
				}
			}
		}
	})
}
