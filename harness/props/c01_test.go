package props

import (
	"testing"

	"verif/harness/gen"
	"verif/harness/oracle"
)

var checkC01 = Check{
	Prop: "C01", Gen: gen.C01, Mon: oracle.C01,
	Rule: "rapid-generated freshness histories (3-12 steps, 1-2 URIs; max-age/Expires/Date/Last-Modified/Age absent, zero, boundary, invalid, huge; request max-age/min-fresh/max-stale/only-if-cached; latencies; sleeps drawn relative to lifetimes in play). Non-trivial = the history contains at least one GET for a URI for which an origin reply was obtained earlier (a reuse decision); distinct = distinct scenario hash.",
}

func init() { register(checkC01) }

func TestC01(t *testing.T) { RunCheck(t, checkC01) }
