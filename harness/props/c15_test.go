package props

import (
	"bytes"
	"context"
	"encoding/json"
	"errors"
	"fmt"
	"io"
	"net/http"
	"net/url"
	"os"
	"os/exec"
	"path/filepath"
	"strings"
	"sync"
	"sync/atomic"
	"syscall"
	"testing"
	"time"
	"unsafe"

	"github.com/anishathalye/porcupine"
	"github.com/bartventer/httpcache/store/memcache"
	"pgregory.net/rapid"

	"github.com/bartventer/httpcache"
	"github.com/bartventer/httpcache/store/driver"
	"github.com/bartventer/httpcache/store/fscache"

	"verif/harness/gen"
	"verif/harness/oracle"
	"verif/harness/world"
)

// ---------------------------------------------------------------------------
// C15 cases

type c15Case struct {
	Kind    string `json:"kind"` // cut | kill | loopkill | conc
	Enc     bool   `json:"enc"`
	Key     string `json:"key"`
	PrevLen int    `json:"prev_len"` // -1 = no previous value
	NewLen  int    `json:"new_len"`
	Seed    uint64 `json:"seed"`
	Cuts    []int  `json:"cuts,omitempty"` // cut points to try (cut / kill)
	// conc
	Threads [][]c15Op `json:"threads,omitempty"`
	Rounds  int       `json:"rounds,omitempty"`
	// conc: Mem = the memory backend instead of the file system; Handles > 1 = that many
	// handles opened on the same directory, threads spread over them
	Mem     bool `json:"mem,omitempty"`
	Handles int  `json:"handles,omitempty"`
	// loopkill
	DelayUs int `json:"delay_us,omitempty"`
	// timeout: the backend's operation timeout in nanoseconds
	TimeoutNs int64 `json:"timeout_ns,omitempty"`
}

type c15Op struct {
	Op  string `json:"op"` // set | get | delete
	Key int    `json:"key"`
	Len int    `json:"len,omitempty"`
}

func c15Open(dir string, enc bool) (driver.Conn, error) {
	if enc {
		return fscache.Open("app", fscache.WithBaseDir(dir), fscache.WithEncryption(c14EncKey))
	}
	return fscache.Open("app", fscache.WithBaseDir(dir))
}

var c15Dir atomic.Int64

const c15Neighbour = "http://a.test/zz-neighbour#0"

func c15TempDir(disk bool) string {
	root := world.ScratchRoot()
	if disk {
		root = filepath.Join("/var/tmp", fmt.Sprintf("verif-%d", os.Getpid()))
	}
	d := filepath.Join(root, fmt.Sprintf("c15-%d", c15Dir.Add(1)))
	_ = os.MkdirAll(d, 0o755)
	return d
}

// judgeGet: after an interrupted Set, Get must return prev in full, next in full, or an error.
func judgeGet(conn driver.Conn, key string, prev, next []byte) string {
	got, err := conn.Get(key)
	if err != nil {
		return "" // absent / unreadable: allowed
	}
	if prev != nil && bytes.Equal(got, prev) {
		return ""
	}
	if bytes.Equal(got, next) {
		return ""
	}
	what := "a value that was never passed to Set"
	if bytes.HasPrefix(next, got) && len(got) < len(next) {
		what = fmt.Sprintf("a %d-byte strict prefix of the %d-byte new value", len(got), len(next))
	} else if prev != nil && bytes.HasPrefix(prev, got) {
		what = fmt.Sprintf("a %d-byte strict prefix of the previous value", len(got))
	}
	return "Get returned " + what
}

func execC15(t *testing.T, sc *world.Scenario) (*oracle.Result, string) {
	r := oracle.NewResult()
	var c c15Case
	if err := json.Unmarshal(sc.Case, &c); err != nil {
		return r, "bad case: " + err.Error()
	}
	switch c.Kind {
	case "cut":
		return execC15Cut(c, r)
	case "kill":
		return execC15Kill(c, r)
	case "loopkill":
		return execC15LoopKill(c, r)
	case "conc":
		return execC15Conc(c, r)
	case "timeout":
		return execC15Timeout(c, r)
	case "timeout-transport":
		return execC15TimeoutTransport(c, r)
	}
	return r, "unknown case kind " + c.Kind
}

// (a1) failed write: the file-size limit cuts the write at byte k, Set returns an error.
func execC15Cut(c c15Case, r *oracle.Result) (*oracle.Result, string) {
	dir := c15TempDir(false)
	defer os.RemoveAll(dir)
	conn, err := c15Open(dir, c.Enc)
	if err != nil {
		return r, err.Error()
	}
	var prev []byte
	next := world.ExpandValue(c.NewLen, c.Seed+1)
	for _, k := range c.Cuts {
		// (re-)establish the previous state
		_ = conn.Delete(c.Key)
		prev = nil
		if c.PrevLen >= 0 {
			prev = world.ExpandValue(c.PrevLen, c.Seed)
			if err := conn.Set(c.Key, prev); err != nil {
				return r, "setup Set failed: " + err.Error()
			}
		}
		restore := world.LimitFileSize(uint64(k))
		serr := conn.Set(c.Key, next)
		restore()
		r.Evals++
		if k > 0 && k < len(next) {
			r.NTKeys = append(r.NTKeys, fmt.Sprintf("cut/%v/%d/%d/%d", c.Enc, c.PrevLen, c.NewLen, k))
		}
		if serr != nil {
			r.Label("write-failed")
		} else {
			r.Label("write-completed")
		}
		if msg := judgeGet(conn, c.Key, prev, next); msg != "" {
			r.Fail("C15", "partial-value-after-failed-write", k, "enc=%v prev=%d new=%d: write cut after %d bytes (Set error: %v): %s", c.Enc, c.PrevLen, c.NewLen, k, serr, msg)
			return r, ""
		}
		// a reopened cache sees the same
		if conn2, err := c15Open(dir, c.Enc); err == nil {
			if msg := judgeGet(conn2, c.Key, prev, next); msg != "" {
				r.Fail("C15", "partial-value-after-failed-write", k, "enc=%v prev=%d new=%d: after reopen, write cut after %d bytes: %s", c.Enc, c.PrevLen, c.NewLen, k, msg)
				return r, ""
			}
		}
	}
	r.NonTrivial = len(r.NTKeys) > 0
	return r, ""
}

// (a2) process death: a child process is killed by the kernel (SIGXFSZ at SIG_DFL) inside the
// write that reaches byte k; no user-space cleanup runs.
func execC15Kill(c c15Case, r *oracle.Result) (*oracle.Result, string) {
	dir := c15TempDir(false)
	defer os.RemoveAll(dir)
	conn, err := c15Open(dir, c.Enc)
	if err != nil {
		return r, err.Error()
	}
	next := world.ExpandValue(c.NewLen, c.Seed+1)
	_ = conn.Set(c15Neighbour, []byte("neighbour"))
	for _, k := range c.Cuts {
		_ = conn.Delete(c.Key)
		var prev []byte
		if c.PrevLen >= 0 {
			prev = world.ExpandValue(c.PrevLen, c.Seed)
			if err := conn.Set(c.Key, prev); err != nil {
				return r, "setup Set failed: " + err.Error()
			}
		}
		spec, _ := json.Marshal(map[string]any{"dir": dir, "enc": c.Enc, "key": c.Key, "len": c.NewLen, "seed": c.Seed + 1, "k": k, "mode": "xfsz"})
		cmd := exec.Command(os.Args[0], "-test.run", "^TestC15Child$")
		cmd.Env = append(os.Environ(), "VERIF_C15_CHILD="+string(spec))
		out, cerr := cmd.CombinedOutput()
		r.Evals++
		killed := false
		if ee := (*exec.ExitError)(nil); errors.As(cerr, &ee) {
			if ws, ok := ee.Sys().(syscall.WaitStatus); ok && ws.Signaled() {
				killed = true
			}
		}
		if killed {
			r.Label("child-killed-in-write")
			if k > 0 && k < len(next) {
				r.NTKeys = append(r.NTKeys, fmt.Sprintf("kill/%v/%d/%d/%d", c.Enc, c.PrevLen, c.NewLen, k))
			}
		} else if cerr != nil {
			return r, fmt.Sprintf("child failed without being killed: %v: %s", cerr, out)
		} else {
			r.Label("child-completed")
		}
		conn2, err := c15Open(dir, c.Enc)
		if err != nil {
			return r, err.Error()
		}
		if msg := judgeGet(conn2, c.Key, prev, next); msg != "" {
			r.Fail("C15", "partial-value-after-crash", k, "enc=%v prev=%d new=%d: writer killed at byte %d: %s", c.Enc, c.PrevLen, c.NewLen, k, msg)
			return r, ""
		}
		// the directory stays usable: the listing is complete (the neighbour key and, if the
		// key holds a value, the key itself - nothing else)
		if kl, ok := conn2.(keyLister); ok {
			keys, err := kl.Keys("")
			if err != nil {
				r.Fail("C15", "listing-broken-after-crash", k, "Keys fails after a writer was killed at byte %d: %v", k, err)
				return r, ""
			}
			want := map[string]bool{c15Neighbour: true}
			if _, gerr := conn2.Get(c.Key); gerr == nil {
				want[c.Key] = true
			}
			got := map[string]bool{}
			for _, x := range keys {
				got[x] = true
			}
			for x := range want {
				if !got[x] {
					r.Fail("C15", "listing-incomplete-after-crash", k, "after a writer was killed at byte %d, Keys omits the live key %q (listed: %d keys)", k, x, len(keys))
					return r, ""
				}
			}
			for x := range got {
				if !want[x] {
					r.Fail("C15", "listing-incomplete-after-crash", k, "after a writer was killed at byte %d, Keys lists %q which holds no value", k, x)
					return r, ""
				}
			}
		}
	}
	r.NonTrivial = len(r.NTKeys) > 0
	return r, ""
}

// (a3) random-time SIGKILL of a child that keeps overwriting one key with two large values
// on a disk-backed directory (fsync makes mid-write kills likely).
func execC15LoopKill(c c15Case, r *oracle.Result) (*oracle.Result, string) {
	dir := c15TempDir(true)
	defer os.RemoveAll(filepath.Dir(dir))
	a := world.ExpandValue(c.NewLen, c.Seed)
	b := world.ExpandValue(c.NewLen+17, c.Seed+1)
	spec, _ := json.Marshal(map[string]any{"dir": dir, "enc": c.Enc, "key": c.Key, "len": c.NewLen, "seed": c.Seed, "mode": "loop"})
	cmd := exec.Command(os.Args[0], "-test.run", "^TestC15Child$")
	cmd.Env = append(os.Environ(), "VERIF_C15_CHILD="+string(spec))
	if err := cmd.Start(); err != nil {
		return r, err.Error()
	}
	time.Sleep(time.Duration(c.DelayUs) * time.Microsecond)
	_ = cmd.Process.Kill()
	_ = cmd.Wait()
	r.Evals = 1
	conn, err := c15Open(dir, c.Enc)
	if err != nil {
		return r, err.Error()
	}
	got, gerr := conn.Get(c.Key)
	switch {
	case gerr != nil:
		r.Label("absent-after-kill")
	case bytes.Equal(got, a) || bytes.Equal(got, b):
		r.Label("intact-after-kill")
		r.NonTrivial = true
		r.NTKeys = append(r.NTKeys, fmt.Sprintf("loopkill/%v/%d/%d", c.Enc, c.NewLen, c.DelayUs))
	default:
		r.Fail("C15", "partial-value-after-crash", -1, "enc=%v: after SIGKILL of a writer alternating %d- and %d-byte values, Get returned %d bytes that are neither", c.Enc, len(a), len(b), len(got))
	}
	return r, ""
}

// (a4) the backend's own operation timeout expires while a large value is being written: the
// caller gets an error, the write finishes (or not) in the background - Get still never
// returns a partial value.
func execC15Timeout(c c15Case, r *oracle.Result) (*oracle.Result, string) {
	dir := c15TempDir(false)
	defer os.RemoveAll(dir)
	plain, err := c15Open(dir, c.Enc)
	if err != nil {
		return r, err.Error()
	}
	prev := world.ExpandValue(c.PrevLen, c.Seed)
	if err := plain.Set(c.Key, prev); err != nil {
		return r, "setup Set failed: " + err.Error()
	}
	toKey := c.TimeoutNs
	if c.TimeoutNs < 0 {
		// adaptive: half of what an unhurried Set of this size takes here and now, so that the
		// timeout fires in the middle of the work whatever the load of the machine
		t0 := time.Now()
		if err := plain.Set(c.Key+"-probe", world.ExpandValue(c.NewLen, c.Seed+9)); err != nil {
			return r, "probe Set failed: " + err.Error()
		}
		c.TimeoutNs = max(int64(time.Since(t0))/(-2*toKey), 20_000) // -1: a half, -2: a quarter
	}
	opts := []fscache.Option{fscache.WithBaseDir(dir), fscache.WithTimeout(time.Duration(c.TimeoutNs))}
	if c.Enc {
		opts = append(opts, fscache.WithEncryption(c14EncKey))
	}
	hasty, err := fscache.Open("app", opts...)
	if err != nil {
		return r, err.Error()
	}
	next := world.ExpandValue(c.NewLen, c.Seed+1)
	buf := append([]byte(nil), next...)
	serr := hasty.Set(c.Key, buf)
	// Set has returned: the buffer is the caller's again (stored values are isolated from the
	// caller's buffers) - reuse it at once, as a caller with a buffer pool would
	for i := range buf {
		buf[i] = 'Z'
	}
	r.Evals = 1
	if serr != nil {
		r.Label("set-timed-out")
		r.NonTrivial = true
		r.NTKeys = append(r.NTKeys, fmt.Sprintf("timeout/%v/%d/%d", c.Enc, c.NewLen, toKey))
	} else {
		r.Label("set-completed-in-time")
	}
	// judge right away and again once the abandoned writer has had time to finish
	for round := 0; round < 2; round++ {
		if msg := judgeGet(plain, c.Key, prev, next); msg != "" {
			r.Fail("C15", "partial-value-after-timeout", round, "enc=%v: Set of %d bytes with operation timeout %v returned %v; %s", c.Enc, c.NewLen, time.Duration(c.TimeoutNs), serr, msg)
			return r, ""
		}
		deadline := time.Now().Add(3 * time.Second)
		for time.Now().Before(deadline) {
			left := false
			for _, f := range filesUnder(dir) {
				if strings.Contains(filepath.Base(f), ".tmp-") {
					left = true
				}
			}
			if !left {
				break
			}
			time.Sleep(5 * time.Millisecond)
		}
	}
	// (a4') a Set that has reported its timeout has returned: its interval is over. A later,
	// successful Set or Delete of the key through another handle is final - the abandoned
	// writer must not take effect after it (no linearisable order has it there).
	if serr != nil && !errors.Is(serr, context.DeadlineExceeded) {
		return r, ""
	}
	if serr != nil {
		// on a fresh directory, so that the later operation follows the timed-out Set at once
		// (above, the abandoned writer has been given time to finish)
		late, detail := execC15LateOnce(c)
		if late {
			// timing decides whether the abandoned writer is still at work when the later
			// operation completes: a report needs the same outcome in at least 2 of 8 further fresh runs
			n := 0
			for i := 0; i < 8; i++ {
				c2 := c
				c2.Seed += uint64(100 * (i + 1))
				if l, _ := execC15LateOnce(c2); l {
					n++
				}
			}
			r.Label("late-commit-seen")
			if n >= 2 {
				r.Fail("C15", "timed-out-set-takes-effect-later", 0, "enc=%v: Set of %d bytes with operation timeout %v returned %v, then %s (and in %d of 8 further runs)", c.Enc, c.NewLen, time.Duration(c.TimeoutNs), serr, detail, n)
			}
		}
	}
	return r, ""
}

// c15LateCommit performs a later operation on the key through conn and reports whether the
// value of the timed-out Set (late) shows up after it.
func c15LateCommit(c c15Case, dir string, conn driver.Conn, late []byte) (bool, string) {
	third := world.ExpandValue(700+int(c.Seed%300), c.Seed+2)
	del := c.Seed%3 == 0
	var operr error
	what := "a successful Set of another value"
	if del {
		what = "a successful Delete"
		operr = conn.Delete(c.Key)
		if errors.Is(operr, driver.ErrNotExist) {
			operr = nil
		}
	} else {
		operr = conn.Set(c.Key, third)
	}
	if operr != nil {
		return false, ""
	}
	deadline := time.Now().Add(3 * time.Second)
	for time.Now().Before(deadline) {
		left := false
		for _, f := range filesUnder(dir) {
			if strings.Contains(filepath.Base(f), ".tmp-") {
				left = true
			}
		}
		if !left {
			break
		}
		time.Sleep(5 * time.Millisecond)
	}
	time.Sleep(2 * time.Millisecond)
	got, err := conn.Get(c.Key)
	if err == nil && bytes.Equal(got, late) {
		return true, what + " completed, and afterwards Get returns the value of the Set that had timed out"
	}
	return false, ""
}

// execC15LateOnce repeats the timeout case on a fresh directory and reports a late commit.
func execC15LateOnce(c c15Case) (bool, string) {
	dir := c15TempDir(false)
	defer os.RemoveAll(dir)
	plain, err := c15Open(dir, c.Enc)
	if err != nil {
		return false, ""
	}
	if err := plain.Set(c.Key, world.ExpandValue(c.PrevLen, c.Seed)); err != nil {
		return false, ""
	}
	opts := []fscache.Option{fscache.WithBaseDir(dir), fscache.WithTimeout(time.Duration(c.TimeoutNs))}
	if c.Enc {
		opts = append(opts, fscache.WithEncryption(c14EncKey))
	}
	hasty, err := fscache.Open("app", opts...)
	if err != nil {
		return false, ""
	}
	next := world.ExpandValue(c.NewLen, c.Seed+1)
	if serr := hasty.Set(c.Key, next); !errors.Is(serr, context.DeadlineExceeded) {
		return false, ""
	}
	return c15LateCommit(c, dir, plain, next)
}

type rtFunc func(*http.Request) (*http.Response, error)

func (f rtFunc) RoundTrip(r *http.Request) (*http.Response, error) { return f(r) }

// (c) transport level, real time: a transport whose file-system backend times out on (almost)
// every operation stores a series of different responses; the writes it abandoned may finish
// later. A second transport on the same directory then serves each URI from the store or from
// the origin - but never another URI's response, a spliced or a truncated one.
func execC15TimeoutTransport(c c15Case, r *oracle.Result) (*oracle.Result, string) {
	dir := c15TempDir(false)
	defer os.RemoveAll(dir)
	dsn := "fscache://" + dir + "?appname=app&timeout=" + time.Duration(c.TimeoutNs).String()
	if c.Enc {
		dsn += "&encrypt=on&encrypt_key=" + url.QueryEscape(c14EncKey)
	}
	nurl := max(c.Rounds, 2)
	bodyOf := func(i, gen int) []byte {
		return append([]byte(fmt.Sprintf("<uri %d generation %d>", i, gen)), world.ExpandValue(c.NewLen+i*977, c.Seed+uint64(i*31+gen))...)
	}
	gen := 0
	origin := rtFunc(func(req *http.Request) (*http.Response, error) {
		var i int
		fmt.Sscanf(req.URL.Path, "/c15/t/%d", &i)
		b := bodyOf(i, gen)
		h := http.Header{}
		h.Set("Date", time.Now().UTC().Format(http.TimeFormat))
		h.Set("Cache-Control", "max-age=100000")
		h.Set("X-Uri", fmt.Sprint(i))
		return &http.Response{StatusCode: 200, Status: "200 OK", Proto: "HTTP/1.1", ProtoMajor: 1, ProtoMinor: 1, Header: h,
			Body: io.NopCloser(bytes.NewReader(b)), ContentLength: int64(len(b)), Request: req}, nil
	})
	get := func(rt http.RoundTripper, i int, reload bool) (string, []byte, string, error) {
		req, _ := http.NewRequest("GET", fmt.Sprintf("http://a.test/c15/t/%d", i), nil)
		if reload {
			req.Header.Set("Cache-Control", "no-cache")
		}
		resp, err := rt.RoundTrip(req)
		if err != nil {
			return "", nil, "", err
		}
		b, rerr := io.ReadAll(resp.Body)
		_ = resp.Body.Close()
		if rerr != nil {
			return "", nil, "", rerr
		}
		return resp.Header.Get("X-Httpcache-Status"), b, resp.Header.Get("X-Uri"), nil
	}
	hasty := httpcache.NewTransport(dsn, httpcache.WithUpstream(origin))
	for gen = 0; gen < 3; gen++ {
		for i := 0; i < nurl; i++ {
			_, b, _, err := get(hasty, i, gen > 0)
			r.Evals++
			if err != nil {
				r.Fail("C15", "timeout-breaks-exchange", i, "round trip through a backend with operation timeout %v failed: %v", time.Duration(c.TimeoutNs), err)
				return r, ""
			}
			if !bytes.Equal(b, bodyOf(i, gen)) {
				r.Fail("C15", "timeout-damages-forwarded-body", i, "the response forwarded for URI %d differs from the origin's (%d vs %d bytes)", i, len(b), len(bodyOf(i, gen)))
				return r, ""
			}
		}
	}
	gen = 2
	// let abandoned writers finish
	deadline := time.Now().Add(3 * time.Second)
	for time.Now().Before(deadline) {
		left := false
		for _, f := range filesUnder(dir) {
			if strings.Contains(filepath.Base(f), ".tmp-") {
				left = true
			}
		}
		if !left {
			break
		}
		time.Sleep(5 * time.Millisecond)
	}
	calm := "fscache://" + dir + "?appname=app"
	if c.Enc {
		calm += "&encrypt=on&encrypt_key=" + url.QueryEscape(c14EncKey)
	}
	second := httpcache.NewTransport(calm, httpcache.WithUpstream(origin))
	hits := 0
	for i := 0; i < nurl; i++ {
		status, b, xuri, err := get(second, i, false)
		r.Evals++
		if err != nil {
			r.Fail("C15", "truncated-response-after-timeout", i, "enc=%v timeout=%v: a second transport on the same directory fails to deliver URI %d: %v (a stored response that ends early)", c.Enc, time.Duration(c.TimeoutNs), i, err)
			return r, ""
		}
		ok := false
		for g := 0; g < 3; g++ {
			if bytes.Equal(b, bodyOf(i, g)) {
				ok = true
			}
		}
		if status == "HIT" {
			hits++
		}
		if !ok || xuri != fmt.Sprint(i) {
			r.Fail("C15", "spliced-response-after-timeout", i, "enc=%v timeout=%v: URI %d is answered (%s) with %d bytes that are no response the origin ever gave for it (header says URI %s; body starts %q)", c.Enc, time.Duration(c.TimeoutNs), i, status, len(b), xuri, truncS(string(b[:min(len(b), 40)])))
			return r, ""
		}
	}
	if hits > 0 {
		r.Label("served-from-store-after-timeouts")
		r.NTKeys = append(r.NTKeys, fmt.Sprintf("tt/%v/%d/%d/%d", c.Enc, c.NewLen, c.TimeoutNs, c.Seed))
	}
	r.NonTrivial = len(r.NTKeys) > 0
	return r, ""
}

func TestC15TimeoutTransport(t *testing.T) {
	c := checkC15
	c.Gen = func(rt *rapid.T) *world.Scenario {
		return mkC15(c15Case{Kind: "timeout-transport", Enc: gen.Pct(rt, "enc", 30), NewLen: gen.Pick(rt, "len", 2000, 60000, 300000, 1000000),
			TimeoutNs: gen.Pick(rt, "to", int64(1), 1, 20_000, 200_000, 2_000_000), Rounds: rapid.IntRange(2, 6).Draw(rt, "urls"), Seed: uint64(rapid.IntRange(1, 1<<20).Draw(rt, "seed"))})
	}
	RunCheck(t, c)
}

// TestC15Child is the writer process of the crash cases (not a test of its own).
func TestC15Child(t *testing.T) {
	spec := os.Getenv("VERIF_C15_CHILD")
	if spec == "" {
		t.Skip("helper process")
	}
	var s struct {
		Dir  string `json:"dir"`
		Enc  bool   `json:"enc"`
		Key  string `json:"key"`
		Len  int    `json:"len"`
		Seed uint64 `json:"seed"`
		K    uint64 `json:"k"`
		Mode string `json:"mode"`
	}
	if err := json.Unmarshal([]byte(spec), &s); err != nil {
		os.Exit(3)
	}
	conn, err := c15Open(s.Dir, s.Enc)
	if err != nil {
		os.Exit(4)
	}
	switch s.Mode {
	case "xfsz":
		// restore the default disposition of SIGXFSZ (terminate), which the Go runtime replaces
		type sigaction struct {
			handler  uintptr
			flags    uint64
			restorer uintptr
			mask     uint64
		}
		var sa sigaction
		if _, _, e := syscall.RawSyscall6(syscall.SYS_RT_SIGACTION, uintptr(syscall.SIGXFSZ), uintptr(unsafe.Pointer(&sa)), 0, 8, 0, 0); e != 0 {
			os.Exit(5)
		}
		world.LimitFileSize(s.K)
		_ = conn.Set(s.Key, world.ExpandValue(s.Len, s.Seed))
		os.Exit(0)
	case "loop":
		a := world.ExpandValue(s.Len, s.Seed)
		b := world.ExpandValue(s.Len+17, s.Seed+1)
		for {
			_ = conn.Set(s.Key, a)
			_ = conn.Set(s.Key, b)
		}
	}
	os.Exit(6)
}

// ---------------------------------------------------------------------------
// (b) concurrent histories, checked for register linearisability

type c15Event struct {
	op    string
	key   int
	val   int // value id (0 = absent)
	call  int64
	ret   int64
	found bool
	bad   string
	// delete: 1 = reported success, 2 = reported that the key does not exist, 0 = another error
	del int
}

func execC15Conc(c c15Case, r *oracle.Result) (*oracle.Result, string) {
	dir := c15TempDir(false)
	defer os.RemoveAll(dir)
	var conns []driver.Conn
	if c.Mem {
		conns = append(conns, memcache.Open())
	} else {
		for h := 0; h < max(c.Handles, 1); h++ {
			cn, err := c15Open(dir, c.Enc)
			if err != nil {
				return r, err.Error()
			}
			conns = append(conns, cn)
		}
	}
	conn := conns[0]
	keys := []string{"http://a.test/conc#0", "http://a.test/conc"}
	rounds := max(c.Rounds, 1)
	for round := 0; round < rounds; round++ {
		for _, k := range keys {
			_ = conn.Delete(k)
		}
		// value id -> bytes; ids are unique per (thread, op)
		values := map[int][]byte{}
		byHash := map[string]int{}
		id := 0
		for ti, th := range c.Threads {
			for oi, op := range th {
				if op.Op == "set" {
					if op.Len == 0 {
						// the empty value: all its writes are the same write as far as a reader
						// can tell, so they share one id
						values[ti*1000+oi] = []byte{}
						byHash[""] = 1 << 30
						continue
					}
					id++
					v := world.ExpandValue(op.Len, c.Seed+uint64(ti*1000+oi+round*100000))
					// make values self-identifying even when short
					v = append([]byte(fmt.Sprintf("<%d>", id)), v...)
					values[ti*1000+oi] = v
					byHash[string(v)] = id
				}
			}
		}
		var mu sync.Mutex
		var events []c15Event
		var wg sync.WaitGroup
		start := make(chan struct{})
		t0 := time.Now()
		for ti, th := range c.Threads {
			wg.Add(1)
			go func(ti int, th []c15Op) {
				defer wg.Done()
				conn := conns[ti%len(conns)]
				<-start
				for oi, op := range th {
					ev := c15Event{op: op.Op, key: op.Key % len(keys)}
					k := keys[ev.key]
					ev.call = int64(time.Since(t0))
					switch op.Op {
					case "set":
						v := values[ti*1000+oi]
						ev.val = byHash[string(v)]
						if err := conn.Set(k, v); err != nil {
							ev.bad = "Set failed: " + err.Error()
						}
					case "get":
						got, err := conn.Get(k)
						if err == nil {
							ev.found = true
							if vid, ok := byHash[string(got)]; ok {
								ev.val = vid
							} else {
								ev.bad = fmt.Sprintf("Get returned %d bytes that equal no value ever passed to Set for any key (torn or mixed read)", len(got))
							}
						} else if !errors.Is(err, driver.ErrNotExist) {
							// a read error is "absent" for this property
							ev.found = false
						}
					case "open":
						if !c.Mem {
							if _, err := c15Open(dir, c.Enc); err != nil {
								ev.bad = "opening another handle on the directory failed: " + err.Error()
							}
						}
					case "delete":
						switch err := conn.Delete(k); {
						case err == nil:
							ev.del = 1
						case errors.Is(err, driver.ErrNotExist):
							ev.del = 2
						}
					}
					ev.ret = int64(time.Since(t0))
					mu.Lock()
					events = append(events, ev)
					mu.Unlock()
				}
			}(ti, th)
		}
		close(start)
		wg.Wait()
		r.Evals++
		overlap := false
		for i := range events {
			for j := range events {
				if i != j && events[i].key == events[j].key && events[i].op == "set" && events[j].op == "get" &&
					events[i].call < events[j].ret && events[j].call < events[i].ret {
					overlap = true
				}
			}
			if events[i].bad != "" {
				r.Fail("C15", "torn-read", round, "enc=%v round %d: %s", c.Enc, round, events[i].bad)
				return r, ""
			}
		}
		if overlap {
			r.NTKeys = append(r.NTKeys, fmt.Sprintf("conc/%v/%d/%d", c.Enc, c.Seed, round))
			r.Label("overlapping-set-get")
		}
		// linearisability as a register per key (Delete = write of "absent")
		type in struct {
			op  string
			val int
		}
		type out struct {
			val   int
			found bool
			del   int
		}
		model := porcupine.Model{
			Init: func() any { return 0 },
			Step: func(state, input, output any) (bool, any) {
				i := input.(in)
				switch i.op {
				case "set":
					return true, i.val
				case "delete":
					// a Delete that reports success removed something; one that reports "does not
					// exist" found nothing (any other error: no claim)
					switch output.(out).del {
					case 1:
						return state.(int) != 0, 0
					case 2:
						return state.(int) == 0, 0
					}
					return true, 0
				}
				o := output.(out)
				if !o.found {
					return state.(int) == 0, state
				}
				return state.(int) == o.val, state
			},
			Equal: func(a, b any) bool { return a == b },
		}
		for ki := range keys {
			var ops []porcupine.Operation
			for i, ev := range events {
				if ev.key != ki || ev.op == "open" {
					continue
				}
				ops = append(ops, porcupine.Operation{ClientId: i, Input: in{ev.op, ev.val}, Call: ev.call, Output: out{ev.val, ev.found, ev.del}, Return: ev.ret})
			}
			if res := porcupine.CheckOperationsTimeout(model, ops, 5*time.Second); res == porcupine.Illegal {
				r.Fail("C15", "not-linearisable", round, "enc=%v mem=%v handles=%d round %d: the Set/Get/Delete history of key %q (results of Delete included) is not linearisable as a register (%d operations)", c.Enc, c.Mem, len(conns), round, keys[ki], len(ops))
				return r, ""
			}
		}
	}
	r.NonTrivial = len(r.NTKeys) > 0
	return r, ""
}

// ---------------------------------------------------------------------------
// generators / enumerations

func c15Cuts(n int, exhaustiveBelow int) []int {
	var cuts []int
	if n <= exhaustiveBelow {
		for k := 0; k <= n; k++ {
			cuts = append(cuts, k)
		}
		return cuts
	}
	seen := map[int]bool{}
	add := func(k int) {
		if k >= 0 && k <= n && !seen[k] {
			seen[k] = true
			cuts = append(cuts, k)
		}
	}
	for _, k := range []int{0, 1, 2, 11, 12, 13, 27, 28, 29, 100, 511, 512, 513, 4095, 4096, 4097, 8191, 8192, 8193, n - 29, n - 28, n - 17, n - 16, n - 2, n - 1, n} {
		add(k)
	}
	for i := 1; i < 256; i++ {
		add(n * i / 256)
	}
	return cuts
}

func mkC15(c c15Case) *world.Scenario {
	b, _ := json.Marshal(c)
	return &world.Scenario{Prop: "C15", Case: b}
}

var checkC15 = Check{Prop: "C15", Exec: execC15}

func init() { register(checkC15) }

// TestC15Cuts enumerates the cut points of failed writes (in-process EFBIG).
func TestC15Cuts(t *testing.T) {
	seed := uint64(envInt("VERIF_SEED", 1))
	sizes := []int{1, 2, 100, 4096}
	if thorough() {
		sizes = append(sizes, 70000)
	}
	exh := 4200
	RunEnum(t, checkC15, func(yield func(*world.Scenario) bool) {
		for _, enc := range []bool{false, true} {
			for _, n := range sizes {
				for _, prev := range []int{-1, n / 2, n + 50} {
					over := 0
					if enc {
						over = 28
					}
					c := c15Case{Kind: "cut", Enc: enc, Key: "http://a.test/cut#0", PrevLen: prev, NewLen: n, Seed: seed*31 + uint64(n), Cuts: c15Cuts(n+over, exh)}
					if !yield(mkC15(c)) {
						return
					}
				}
			}
		}
	})
}

// TestC15Kill enumerates cut points at which the writing process dies.
func TestC15Kill(t *testing.T) {
	seed := uint64(envInt("VERIF_SEED", 1))
	sizes := []int{1, 100, 4096}
	exh := 0
	if thorough() {
		sizes = []int{1, 2, 100, 4096, 70000}
		exh = 130
	}
	RunEnum(t, checkC15, func(yield func(*world.Scenario) bool) {
		for _, enc := range []bool{false, true} {
			for _, n := range sizes {
				for _, prev := range []int{-1, n + 50} {
					over := 0
					if enc {
						over = 28
					}
					cuts := c15Cuts(n+over, exh)
					if !thorough() && len(cuts) > 40 {
						// quick tier: every 7th sampled cut (edges are kept by the stride start)
						var s []int
						for i := int(seed) % 7; i < len(cuts); i += 7 {
							s = append(s, cuts[i])
						}
						cuts = append(s, n+over-1, 1)
					}
					c := c15Case{Kind: "kill", Enc: enc, Key: "http://a.test/kill#0", PrevLen: prev, NewLen: n, Seed: seed*37 + uint64(n), Cuts: cuts}
					if !yield(mkC15(c)) {
						return
					}
				}
			}
		}
	})
}

// TestC15Timeout enumerates operation timeouts x value sizes.
func TestC15Timeout(t *testing.T) {
	seed := uint64(envInt("VERIF_SEED", 1))
	RunEnum(t, checkC15, func(yield func(*world.Scenario) bool) {
		for _, enc := range []bool{false, true} {
			for _, n := range []int{1 << 20, 2<<20 + 17, 5 << 20} {
				for _, to := range []int64{1, 50_000, 300_000, 1_000_000, 3_000_000, -1, -2} {
					c := c15Case{Kind: "timeout", Enc: enc, Key: "http://a.test/timeout#0", PrevLen: 1000, NewLen: n, Seed: seed*41 + uint64(n), TimeoutNs: to}
					if !yield(mkC15(c)) {
						return
					}
				}
			}
		}
	})
}

// TestC15LoopKill: SIGKILL at generated delays of a writer looping over large Sets.
func TestC15LoopKill(t *testing.T) {
	c := checkC15
	c.Gen = func(rt *rapid.T) *world.Scenario {
		return mkC15(c15Case{Kind: "loopkill", Enc: gen.Pct(rt, "enc", 30), Key: "http://a.test/loop#0",
			NewLen: gen.Pick(rt, "len", 200000, 1000000, 4000000), Seed: uint64(rapid.IntRange(1, 1000).Draw(rt, "seed")),
			DelayUs: rapid.IntRange(2000, 60000).Draw(rt, "delay")})
	}
	RunCheck(t, c)
}

// TestC15Conc: rapid-drawn concurrent histories on the real file system.
func TestC15Conc(t *testing.T) {
	c := checkC15
	c.Gen = func(rt *rapid.T) *world.Scenario {
		nth := rapid.IntRange(2, 8).Draw(rt, "threads")
		cs := c15Case{Kind: "conc", Enc: gen.Pct(rt, "enc", 30), Seed: uint64(rapid.IntRange(1, 1<<20).Draw(rt, "seed")), Rounds: 3}
		switch gen.Weighted(rt, "store", 60, 20, 20) {
		case 1:
			cs.Mem, cs.Enc = true, false
		case 2:
			cs.Handles = gen.Pick(rt, "handles", 2, 2, 3)
		}
		if gen.Pct(rt, "deletestorm", 15) {
			// every thread writes and deletes the same key, over and over: of the Deletes that
			// follow one Set at most one may report success
			nth = rapid.IntRange(4, 12).Draw(rt, "stormthreads")
			for ti := 0; ti < nth; ti++ {
				var th []c15Op
				for oi := 0; oi < 4; oi++ {
					if ti == 0 {
						th = append(th, c15Op{Op: "set", Len: 10})
					}
					th = append(th, c15Op{Op: "delete"})
				}
				cs.Threads = append(cs.Threads, th)
			}
			cs.Rounds = 6
			return mkC15(cs)
		}
		for ti := 0; ti < nth; ti++ {
			n := rapid.IntRange(1, 6).Draw(rt, fmt.Sprintf("n%d", ti))
			var th []c15Op
			for oi := 0; oi < n; oi++ {
				lbl := fmt.Sprintf("t%d-%d", ti, oi)
				// "open": another handle is opened on the directory while the others are at work
				// (a second process starting up, the maintenance API serving a request)
				op := c15Op{Op: []string{"set", "get", "delete", "open"}[gen.Weighted(rt, lbl+"-op", 40, 38, 16, 6)], Key: gen.Weighted(rt, lbl+"-key", 80, 20)}
				if op.Op == "set" {
					op.Len = gen.Pick(rt, lbl+"-len", 0, 10, 4096, 65536, 300000, 300000)
				}
				th = append(th, op)
			}
			cs.Threads = append(cs.Threads, th)
		}
		return mkC15(cs)
	}
	RunCheck(t, c)
}

// TestC15Transport: a write cut by the file-size limit while the transport stores a
// response; later GETs get the stored response intact or the origin's reply.
func TestC15Transport(t *testing.T) {
	c := Check{Prop: "C15", Mon: oracle.C15Transport}
	c.Gen = func(rt *rapid.T) *world.Scenario {
		sc := &world.Scenario{Prop: "C15", Backend: gen.Pick(rt, "backend", "fs", "fs", "fsenc")}
		u := "http://a.test/c15"
		n := rapid.IntRange(2, 5).Draw(rt, "reqs")
		for i := 0; i < n; i++ {
			lbl := fmt.Sprintf("r%d", i)
			if i > 0 && gen.Pct(rt, lbl+"-sleep", 40) {
				sc.Steps = append(sc.Steps, gen.SleepStep(gen.Pick(rt, lbl+"-d", int64(1), 11, 100)))
			}
			rq := &world.Req{Method: "GET", URL: u}
			rq.Uncond = world.Reply{Kind: "resp", Status: 200, Shape: gen.Pick(rt, lbl+"-shape", "cl", "close", "chunked", "h2nolen"),
				Body:   world.Body{Len: gen.Pick(rt, lbl+"-len", 0, 10, 300, 5000), Class: gen.Pick(rt, lbl+"-class", "", "rand", "httpish")},
				Header: [][2]string{gen.H("Date", "$T+0"), gen.H("Cache-Control", "max-age=10"), gen.H("Etag", `"v$S"`)}}
			rq.Cond = &world.Reply{Kind: "resp", Status: 304, Header: [][2]string{gen.H("Date", "$T+0"), gen.H("Cache-Control", "max-age=10")}}
			sc.Steps = append(sc.Steps, gen.ReqStep(rq))
		}
		nf := rapid.IntRange(1, 2).Draw(rt, "nfaults")
		for i := 0; i < nf; i++ {
			sc.Faults = append(sc.Faults, world.Fault{At: rapid.IntRange(0, 14).Draw(rt, fmt.Sprintf("fat%d", i)), Kind: "rlimit", Arg: rapid.IntRange(0, 600).Draw(rt, fmt.Sprintf("fk%d", i))})
		}
		return sc
	}
	RunCheck(t, c)
}

func TestC15Replay(t *testing.T) {
	f := os.Getenv("VERIF_REPLAY")
	if f == "" {
		t.Skip("VERIF_REPLAY not set")
	}
	sc, err := world.Load(f)
	if err != nil {
		t.Fatal(err)
	}
	if sc.Case != nil {
		Replay(t, checkC15, f)
		return
	}
	Replay(t, Check{Prop: "C15", Mon: oracle.C15Transport}, f)
}
