package props

import (
	"bytes"
	"crypto/sha256"
	"encoding/base64"
	"encoding/json"
	"errors"
	"fmt"
	"github.com/bartventer/httpcache/store/expapi"
	"net/http"
	"net/http/httptest"
	"net/url"
	"os"
	"path/filepath"
	"sort"
	"strings"
	"sync"
	"sync/atomic"
	"testing"
	"time"

	"pgregory.net/rapid"

	"github.com/bartventer/httpcache"
	"github.com/bartventer/httpcache/store"
	"github.com/bartventer/httpcache/store/driver"
	"github.com/bartventer/httpcache/store/fscache"

	"verif/harness/gen"
	"verif/harness/oracle"
	"verif/harness/world"
)

type c17Case struct {
	Kind   string `json:"kind"` // tamper | config
	Path   string `json:"path"` // option | dsn-on | dsn-aesgcm | env
	KeyLen int    `json:"key_len,omitempty"`
	ValLen int    `json:"val_len,omitempty"`
	Seed   uint64 `json:"seed,omitempty"`
	// URLLen > 0: the store keys are that long (long keys live in nested fragment directories
	// that the first write has to create)
	URLLen int `json:"url_len,omitempty"`
	// Stealth: the tampering is done on a settled, already-read entry and restores the mtime
	Stealth bool `json:"stealth,omitempty"`
	// config
	BadKey string `json:"bad_key,omitempty"`
	KeyTag string `json:"key_tag,omitempty"`
}

func aesKey(n int, seed uint64) string {
	h := sha256.Sum256([]byte(fmt.Sprintf("key-%d-%d", n, seed)))
	raw := append(h[:], h[:]...)[:n]
	return base64.URLEncoding.EncodeToString(raw)
}

// c17Open opens the encrypted backend through one of the documented switches.
func c17Open(path, dir, key string, keyPresent bool) (driver.Conn, error) {
	switch path {
	case "option":
		return fscache.Open("app", fscache.WithBaseDir(dir), fscache.WithEncryption(key))
	case "dsn-on", "dsn-aesgcm":
		mode := "on"
		if path == "dsn-aesgcm" {
			mode = "aesgcm"
		}
		dsn := "fscache://" + dir + "?appname=app&encrypt=" + mode
		if keyPresent {
			dsn += "&encrypt_key=" + queryEscape(key)
		}
		return store.Open(dsn)
	case "dsn-allopts":
		// every other option of the backend on as well (a Get then also touches the file)
		return store.Open("fscache://" + dir + "?appname=app&encrypt=aesgcm&update_mtime=on&timeout=90s&connect_timeout=45s&encrypt_key=" + queryEscape(key))
	case "dsn+env":
		// both sources at once: the key named in the DSN is the one in force, not whatever
		// key happens to be in the process environment (a valid, different one here)
		os.Setenv("FSCACHE_ENCRYPT_KEY", aesKey(32, 424242))
		defer os.Unsetenv("FSCACHE_ENCRYPT_KEY")
		dsn := "fscache://" + dir + "?appname=app&encrypt=aesgcm"
		if keyPresent {
			dsn += "&encrypt_key=" + queryEscape(key)
		}
		return store.Open(dsn)
	case "env":
		if keyPresent {
			os.Setenv("FSCACHE_ENCRYPT_KEY", key)
		} else {
			os.Unsetenv("FSCACHE_ENCRYPT_KEY")
		}
		defer os.Unsetenv("FSCACHE_ENCRYPT_KEY")
		return store.Open("fscache://" + dir + "?appname=app&encrypt=on")
	}
	return nil, errors.New("unknown path")
}

func queryEscape(s string) string {
	var b bytes.Buffer
	for i := 0; i < len(s); i++ {
		c := s[i]
		if (c >= 'a' && c <= 'z') || (c >= 'A' && c <= 'Z') || (c >= '0' && c <= '9') || c == '-' || c == '_' || c == '.' || c == '~' {
			b.WriteByte(c)
		} else {
			fmt.Fprintf(&b, "%%%02X", c)
		}
	}
	return b.String()
}

func filesUnder(dir string) []string {
	var out []string
	_ = filepath.WalkDir(dir, func(p string, d os.DirEntry, err error) error {
		if err == nil && !d.IsDir() {
			out = append(out, p)
		}
		return nil
	})
	sort.Strings(out)
	return out
}

func plaintextWindow(file, value []byte) int {
	if len(value) < 8 {
		if len(value) > 0 && bytes.Equal(file, value) {
			return 0
		}
		return -1
	}
	for i := 0; i+8 <= len(value); i++ {
		if bytes.Contains(file, value[i:i+8]) {
			return i
		}
	}
	return -1
}

var c17Dir int

func execC17(t *testing.T, sc *world.Scenario) (*oracle.Result, string) {
	r := oracle.NewResult()
	var c c17Case
	if err := json.Unmarshal(sc.Case, &c); err != nil {
		return r, err.Error()
	}
	c17Dir++
	dir := filepath.Join(world.ScratchRoot(), fmt.Sprintf("c17-%d", c17Dir))
	_ = os.MkdirAll(dir, 0o755)
	defer os.RemoveAll(dir)
	if c.Kind == "config" {
		return execC17Config(c, dir, r)
	}
	if c.Kind == "openconc" {
		return execC17OpenConc(c, r)
	}
	if c.Kind == "churn" {
		return execC17Churn(c, r)
	}
	key := aesKey(c.KeyLen, c.Seed)
	conn, err := c17Open(c.Path, dir, key, true)
	if err != nil {
		r.Fail("C17", "valid-key-rejected", -1, "opening with a valid %d-byte key via %s failed: %v", c.KeyLen, c.Path, err)
		return r, ""
	}
	value := world.ExpandValue(c.ValLen, c.Seed)
	k1, k2 := "http://a.test/c17#0", "http://a.test/c17-other#0"
	if c.URLLen > len(k1) {
		pad := strings.Repeat("p", c.URLLen-len(k1))
		k1, k2 = "http://a.test/c17"+pad+"#0", "http://a.test/c17-other"+pad+"#0"
	}
	if err := conn.Set(k1, value); err != nil {
		return r, "Set failed: " + err.Error()
	}
	files := filesUnder(dir)
	if len(files) != 1 {
		return r, fmt.Sprintf("expected one file, found %d", len(files))
	}
	f1 := files[0]
	orig, _ := os.ReadFile(f1)
	r.Evals++
	if w := plaintextWindow(orig, value); w >= 0 {
		r.Fail("C17", "plaintext-on-disk:"+c.Path, -1, "encryption enabled via %s, yet the file contains the plaintext window value[%d:%d] (file %d bytes, value %d bytes)", c.Path, w, w+8, len(orig), len(value))
		return r, ""
	}
	// same value again: different ciphertext
	if err := conn.Set(k1, value); err != nil {
		return r, "Set failed: " + err.Error()
	}
	again, _ := os.ReadFile(f1)
	r.Evals++
	if bytes.Equal(again, orig) {
		r.Fail("C17", "deterministic-ciphertext", -1, "two Sets of the same %d-byte value produced identical file bytes (via %s)", len(value), c.Path)
		return r, ""
	}
	if err := conn.Set(k2, value); err != nil {
		return r, "Set failed: " + err.Error()
	}
	for _, f := range filesUnder(dir) {
		if f != f1 {
			other, _ := os.ReadFile(f)
			if bytes.Equal(other, again) {
				r.Fail("C17", "deterministic-ciphertext", -1, "the same value under two keys produced identical file bytes")
				return r, ""
			}
		}
	}
	orig = again
	// Stealth: the entry has been lying there for a while and has been read through this handle
	// before; the tampering keeps the file's inode and puts its modification time back
	// (an attacker with write access can do that): what a Get returns is still decided by the
	// bytes in the file, not by a memory of them.
	settled := time.Now().Add(-time.Hour)
	if c.Stealth {
		_ = os.Chtimes(f1, settled, settled)
		if got, err := conn.Get(k1); err != nil || !bytes.Equal(got, value) {
			return r, fmt.Sprintf("warm Get failed: %v", err)
		}
		r.Label("stealth-tamper")
	}
	check := func(kind string, pos int, data []byte) bool {
		if err := os.WriteFile(f1, data, 0o644); err != nil {
			return true
		}
		if c.Stealth {
			_ = os.Chtimes(f1, settled, settled)
		}
		got, err := conn.Get(k1)
		r.Evals++
		r.NTKeys = append(r.NTKeys, fmt.Sprintf("%s/%d/%d/%s/%d", c.Path, c.KeyLen, c.ValLen, kind, pos))
		if err == nil {
			same := "different bytes"
			if bytes.Equal(got, value) {
				same = "the original value"
			}
			r.Fail("C17", "tampered-file-accepted:"+kind, pos, "file of %d bytes tampered (%s at %d) and Get returned %d bytes (%s) instead of an error (via %s, %d-byte key)", len(orig), kind, pos, len(got), same, c.Path, c.KeyLen)
			return false
		}
		return true
	}
	positions := make([]int, 0, len(orig))
	limit := 300
	if thorough() {
		limit = 2100
	}
	if len(orig) <= limit {
		for p := range orig {
			positions = append(positions, p)
		}
	} else {
		for _, p := range []int{0, 1, 11, 12, 13, len(orig) - 17, len(orig) - 16, len(orig) - 15, len(orig) - 1} {
			positions = append(positions, p)
		}
		for i := 1; i < 128; i++ {
			positions = append(positions, len(orig)*i/128)
		}
	}
	for _, p := range positions {
		for _, x := range []byte{0x01, 0xff} {
			d := append([]byte(nil), orig...)
			d[p] ^= x
			kind := "flip01"
			if x == 0xff {
				kind = "flipff"
			}
			if !check(kind, p, d) {
				return r, ""
			}
		}
		if !check("truncate", p, append([]byte(nil), orig[:p]...)) {
			return r, ""
		}
	}
	// structural edits of large files: whole blocks cut off, dropped, repeated or swapped at
	// the sizes a chunked encryption format would use (2^k bytes plus nonce / tag overhead)
	if len(orig) > 1100 {
		for _, chunk := range []int{1024, 4096, 16384, 32768, 65536} {
			for _, over := range []int{0, 12, 16, 28} {
				seg := chunk + over
				if seg >= len(orig) {
					continue
				}
				for cut := seg; cut < len(orig); cut += seg {
					if !check(fmt.Sprintf("truncate-at-%d+%d", chunk, over), cut, append([]byte(nil), orig[:cut]...)) {
						return r, ""
					}
					if cut > 4*seg {
						break
					}
				}
				// drop the first block / repeat it / swap the first two
				if !check(fmt.Sprintf("drop-block-%d+%d", chunk, over), 0, append([]byte(nil), orig[seg:]...)) {
					return r, ""
				}
				dup := append(append([]byte(nil), orig[:seg]...), orig...)
				if !check(fmt.Sprintf("repeat-block-%d+%d", chunk, over), 0, dup) {
					return r, ""
				}
				if 2*seg <= len(orig) {
					sw := append([]byte(nil), orig[seg:2*seg]...)
					sw = append(sw, orig[:seg]...)
					sw = append(sw, orig[2*seg:]...)
					if !bytes.Equal(sw, orig) && !check(fmt.Sprintf("swap-blocks-%d+%d", chunk, over), 0, sw) {
						return r, ""
					}
				}
			}
		}
	}
	// the file replaced wholesale by well-formed unencrypted records
	for i, forged := range [][]byte{
		value,
		[]byte(`[{"id":"` + k1 + `","vary":"","vary_resolved":{},"received_at":"2000-01-01T00:00:00Z"}]`),
		[]byte(k1 + "\t2000-01-01T00:00:00Z\t2000-01-01T00:00:00Z\nHTTP/1.1 200 OK\r\nCache-Control: max-age=100000\r\nContent-Length: 6\r\n\r\nforged"),
		[]byte("[]"), []byte("null"),
	} {
		if len(forged) == 0 {
			continue
		}
		if !check("replace-with-plaintext", i, forged) {
			return r, ""
		}
	}
	for _, ext := range [][]byte{{0}, bytes.Repeat([]byte{0xaa}, 16), orig} {
		if !check("append", len(ext), append(append([]byte(nil), orig...), ext...)) {
			return r, ""
		}
	}
	_ = os.WriteFile(f1, orig, 0o644)
	if got, err := conn.Get(k1); err != nil || !bytes.Equal(got, value) {
		return r, fmt.Sprintf("restored file no longer readable: %v", err)
	}
	// a wrong key never yields data
	other := aesKey(c.KeyLen, c.Seed+999)
	if conn2, err := c17Open(c.Path, dir, other, true); err == nil {
		got, err := conn2.Get(k1)
		r.Evals++
		if err == nil {
			r.Fail("C17", "wrong-key-yields-data", -1, "Get with a different key returned %d bytes", len(got))
			return r, ""
		}
	}
	r.NonTrivial = len(r.NTKeys) > 0
	r.Label("path:" + c.Path)
	return r, ""
}

// execC17Switch: the encrypt parameter is given a value that plainly asks for encryption but
// is not one of the two documented spellings; with a valid key present. Either the open fails,
// or what is stored is encrypted - never a cache that silently stores plaintext.
func execC17Switch(c c17Case, dir string, r *oracle.Result) (*oracle.Result, string) {
	key := aesKey(32, 7)
	dsn := "fscache://" + dir + "?appname=app&encrypt=" + queryEscape(c.BadKey) + "&encrypt_key=" + queryEscape(key)
	os.Setenv("FSCACHE_ENCRYPT_KEY", key)
	defer os.Unsetenv("FSCACHE_ENCRYPT_KEY")
	conn, err := store.Open(dsn)
	r.Evals++
	r.NonTrivial = true
	r.NTKeys = append(r.NTKeys, "switch/"+c.BadKey)
	if err != nil {
		r.Label("switch-rejected")
		return r, ""
	}
	value := world.ExpandValue(64, 9)
	_ = conn.Set("http://a.test/cfg#0", value)
	for _, f := range filesUnder(dir) {
		b, _ := os.ReadFile(f)
		if plaintextWindow(b, value) >= 0 {
			r.Fail("C17", "encryption-requested-but-plaintext:"+c.BadKey, -1, "opened with encrypt=%s and a valid key (DSN and environment): the open succeeded and the value is stored in plaintext", c.BadKey)
			return r, ""
		}
	}
	r.Label("switch-accepted-and-encrypted")
	return r, ""
}

// execC17Query: a DSN whose query string asks for encryption in so many words (encrypt=on or
// encrypt=aesgcm with a usable key, which is in the environment as well) but is not well-formed
// as a whole - a ";" between two pairs, a broken percent escape somewhere. Opening may fail; if
// it succeeds, what is stored is not plaintext.
func execC17Query(c c17Case, dir string, r *oracle.Result) (*oracle.Result, string) {
	key := aesKey(32, 7)
	dsn := "fscache://" + dir + "?" + strings.ReplaceAll(c.BadKey, "$KEY", queryEscape(key))
	os.Setenv("FSCACHE_ENCRYPT_KEY", key)
	defer os.Unsetenv("FSCACHE_ENCRYPT_KEY")
	conn, err := store.Open(dsn)
	r.Evals++
	r.NonTrivial = true
	r.NTKeys = append(r.NTKeys, "query/"+c.BadKey)
	if err != nil {
		r.Label("query-rejected")
		return r, ""
	}
	value := world.ExpandValue(64, 11)
	_ = conn.Set("http://a.test/cfg#0", value)
	for _, f := range filesUnder(dir) {
		b, _ := os.ReadFile(f)
		if plaintextWindow(b, value) >= 0 {
			r.Fail("C17", "encryption-requested-but-plaintext:query", -1, "opened with the DSN query %q (encryption asked for, valid key in DSN and environment): the open succeeded and the value is stored in plaintext", c.BadKey)
			return r, ""
		}
	}
	r.Label("query-accepted-and-encrypted")
	return r, ""
}

// execC17API: the maintenance HTTP API on an encrypted cache whose key comes from the
// environment. A request made while the environment holds another key - or none - never
// yields the stored value, whatever requests were made before with the right key.
func execC17API(c c17Case, dir string, r *oracle.Result) (*oracle.Result, string) {
	right, wrong := aesKey(32, 21), aesKey(32, 22)
	dsn := "fscache://" + dir + "?appname=app&encrypt=" + c.BadKey
	mux := http.NewServeMux()
	expapi.Register(expapi.WithServeMux(mux))
	api := func(method, key string) (int, []byte) {
		req := httptest.NewRequest(method, "/debug/httpcache/"+url.PathEscape(key)+"?"+url.Values{"dsn": {dsn}}.Encode(), nil)
		rec := httptest.NewRecorder()
		mux.ServeHTTP(rec, req)
		return rec.Code, rec.Body.Bytes()
	}
	defer os.Unsetenv("FSCACHE_ENCRYPT_KEY")
	os.Setenv("FSCACHE_ENCRYPT_KEY", right)
	conn, err := store.Open(dsn)
	if err != nil {
		return r, "open with the right key failed: " + err.Error()
	}
	value := world.ExpandValue(96, 23)
	const k = "entry-1"
	if err := conn.Set(k, value); err != nil {
		return r, "Set failed: " + err.Error()
	}
	r.NonTrivial = true
	r.NTKeys = append(r.NTKeys, "api/"+c.BadKey)
	if code, body := api("GET", k); code != http.StatusOK || !bytes.Contains(body, value[:16]) {
		r.Label("api-right-key-unreadable")
		return r, ""
	}
	for _, env := range []string{wrong, "", aesKey(16, 24), right, wrong} {
		if env == "" {
			os.Unsetenv("FSCACHE_ENCRYPT_KEY")
		} else {
			os.Setenv("FSCACHE_ENCRYPT_KEY", env)
		}
		code, body := api("GET", k)
		r.Evals++
		if env != right && bytes.Contains(body, value[:16]) {
			what := "another key"
			if env == "" {
				what = "no key at all"
			}
			r.Fail("C17", "wrong-key-yields-data:api", -1, "maintenance API, DSN %q: with %s in the environment GET answered %d and returned the stored value", "fscache://...?appname=app&encrypt="+c.BadKey, what, code)
			return r, ""
		}
	}
	return r, ""
}

func execC17Config(c c17Case, dir string, r *oracle.Result) (*oracle.Result, string) {
	if c.KeyTag == "api" {
		return execC17API(c, dir, r)
	}
	if c.KeyTag == "switch" {
		return execC17Switch(c, dir, r)
	}
	if c.KeyTag == "query" {
		return execC17Query(c, dir, r)
	}
	keyPresent := c.KeyTag != "absent"
	conn, err := c17Open(c.Path, dir, c.BadKey, keyPresent)
	r.Evals++
	r.NonTrivial = true
	r.NTKeys = append(r.NTKeys, "config/"+c.Path+"/"+c.KeyTag)
	if err == nil {
		// it opened: does it store plaintext?
		value := world.ExpandValue(64, 7)
		_ = conn.Set("http://a.test/cfg#0", value)
		leak := false
		for _, f := range filesUnder(dir) {
			b, _ := os.ReadFile(f)
			if plaintextWindow(b, value) >= 0 {
				leak = true
			}
		}
		r.Fail("C17", "unusable-key-accepted:"+c.KeyTag, -1, "encryption requested via %s with an unusable key (%s: %q) but opening succeeded (plaintext on disk: %v)", c.Path, c.KeyTag, c.BadKey, leak)
		return r, ""
	}
	// NewTransport must panic with ErrOpenCache for the DSN paths
	if c.Path == "dsn-on" || c.Path == "dsn-aesgcm" {
		dsn := "fscache://" + dir + "?appname=app&encrypt=on"
		if keyPresent {
			dsn += "&encrypt_key=" + queryEscape(c.BadKey)
		}
		var pv any
		func() {
			defer func() { pv = recover() }()
			_ = httpcache.NewTransport(dsn)
		}()
		r.Evals++
		if e, ok := pv.(error); !ok || !errors.Is(e, httpcache.ErrOpenCache) {
			r.Fail("C17", "newtransport-did-not-fail:"+c.KeyTag, -1, "NewTransport(%q) did not panic with ErrOpenCache (recovered: %v)", dsn, pv)
			return r, ""
		}
	}
	if n := len(filesUnder(dir)); n > 0 {
		r.Fail("C17", "files-after-failed-open", -1, "%d files appeared although opening failed", n)
	}
	return r, ""
}

func mkC17(c c17Case) *world.Scenario {
	b, _ := json.Marshal(c)
	return &world.Scenario{Prop: "C17", Case: b}
}

var checkC17 = Check{Prop: "C17", Exec: execC17}

func init() { register(checkC17) }

var c17Paths = []string{"option", "dsn-on", "dsn-aesgcm", "env", "dsn+env"}

// TestC17Tamper: rapid draws (value, key size, switch); every byte position / truncation /
// extension of the stored file is enumerated inside the case.
func TestC17Tamper(t *testing.T) {
	c := checkC17
	c.Gen = func(rt *rapid.T) *world.Scenario {
		maxLen := 256
		if thorough() {
			maxLen = 2048
		}
		n := gen.Pick(rt, "vlen", 0, 1, 7, 8, 15, 16, 17, 100, maxLen)
		if gen.Pct(rt, "exact", 40) {
			n = rapid.IntRange(0, maxLen).Draw(rt, "vlenx")
		}
		if gen.Pct(rt, "big", 15) {
			n = gen.Pick(rt, "vbig", 5000, 70000, 140000, 200000)
		}
		return mkC17(c17Case{Kind: "tamper", Path: gen.Pick(rt, "path", append([]string{"dsn-allopts"}, c17Paths...)...), KeyLen: gen.Pick(rt, "klen", 16, 24, 32),
			ValLen: n, Seed: uint64(rapid.IntRange(1, 1<<30).Draw(rt, "seed")), URLLen: gen.Pick(rt, "urllen", 0, 0, 0, 150, 192, 250, 400, 1000), Stealth: gen.Pct(rt, "stealth", 35)})
	}
	RunCheck(t, c)
}

// TestC17Config enumerates unusable keys x switches.
func TestC17Config(t *testing.T) {
	raw := func(n int) string { return base64.URLEncoding.EncodeToString(bytes.Repeat([]byte{7}, n)) }
	bad := [][2]string{
		{"len0", raw(0)}, {"len1", raw(1)}, {"len15", raw(15)}, {"len17", raw(17)}, {"len31", raw(31)}, {"len33", raw(33)}, {"len64", raw(64)},
		{"bad-base64", "!!!not-base64!!!"}, {"unpadded", "6S-Ks2YYOW0xMvTzKSv6QD30gZeOi1c6Ydr-As5csWk"}, {"std-alphabet", "6S+Ks2YYOW0xMvTzKSv6QD30gZeOi1c6Ydr/As5csWk="},
		{"whitespace", " 6S-Ks2YYOW0xMvTzKSv6QD30gZeOi1c6Ydr-As5csWk="}, {"empty", ""}, {"absent", ""},
	}
	RunEnum(t, checkC17, func(yield func(*world.Scenario) bool) {
		for _, v := range []string{"ON", "On", "AESGCM", "aes-gcm", "aes", "true", "1", "yes", "enabled", "on ", "encrypt"} {
			if !yield(mkC17(c17Case{Kind: "config", Path: "dsn-switch", BadKey: v, KeyTag: "switch"})) {
				return
			}
		}
		for _, q := range []string{
			"appname=app&encrypt=on;encrypt_key=$KEY", "appname=app;encrypt=on&encrypt_key=$KEY", "encrypt=on;appname=app", "appname=app&encrypt=aesgcm;encrypt_key=$KEY",
			"appname=app&encrypt=on&encrypt_key=$KEY&x=%zz", "appname=app&x=%&encrypt=on", "appname=app&encrypt=on&encrypt_key=$KEY;", "appname=app&encrypt=on&encrypt_key=$KEY&%gg=1",
			"appname=app&encrypt=on&encrypt_key=$KEY&timeout=5s;connect_timeout=1s", "appname=app&encrypt=on&encrypt_key=$KEY", "encrypt=on&appname=app",
		} {
			if !yield(mkC17(c17Case{Kind: "config", Path: "dsn-query", BadKey: q, KeyTag: "query"})) {
				return
			}
		}
		for _, v := range []string{"on", "aesgcm"} {
			if !yield(mkC17(c17Case{Kind: "config", Path: "api-env", BadKey: v, KeyTag: "api"})) {
				return
			}
		}
		for _, p := range c17Paths {
			for _, b := range bad {
				if p == "option" && b[0] == "absent" {
					continue
				}
				if p == "dsn+env" && (b[0] == "absent" || b[0] == "empty" || b[0] == "len0") {
					continue // no key in the DSN: the (valid) environment key is used, by design
				}
				if !yield(mkC17(c17Case{Kind: "config", Path: p, BadKey: b[1], KeyTag: b[0]})) {
					return
				}
			}
		}
	})
}

// TestC17Transport: tampering with the files of a stored response on the encrypted backend
// makes the transport answer from the origin.
func TestC17Transport(t *testing.T) {
	c := Check{Prop: "C17", Mon: oracle.C17Transport}
	c.Gen = func(rt *rapid.T) *world.Scenario {
		sc := &world.Scenario{Prop: "C17", Backend: "fsenc"}
		u := "http://a.test/c17"
		mk := func(lbl string) world.Step {
			rq := &world.Req{Method: "GET", URL: u}
			rq.Uncond = world.Reply{Kind: "resp", Status: 200, Body: world.Body{Len: gen.Pick(rt, lbl+"-len", 0, 20, 500, 5000), Class: "rand", Seed: 5},
				Header: [][2]string{gen.H("Date", "$T+0"), gen.H("Cache-Control", "max-age=1000"), gen.H("Etag", `"v$S"`)}}
			rq.Cond = gen.Simple304()
			return gen.ReqStep(rq)
		}
		sc.Steps = append(sc.Steps, mk("a"))
		if gen.Pct(rt, "second", 30) {
			sc.Steps = append(sc.Steps, mk("b"))
		}
		kind := gen.Pick(rt, "tamper", "file-flip", "file-flip", "file-trunc", "file-append", "file-zero", "file-plaintext")
		data := gen.Pick(rt, "ext", "x", "0123456789abcdef")
		if kind == "file-plaintext" {
			data = gen.Pick(rt, "forged",
				"http://a.test/c17#0\t2000-01-01T00:00:00Z\t2000-01-01T00:00:00Z\nHTTP/1.1 200 OK\r\nCache-Control: max-age=100000\r\nContent-Length: 6\r\nX-Tok: 1\r\n\r\nforged",
				`[{"id":"http://a.test/c17#0","vary":"","vary_resolved":{},"received_at":"2000-01-01T00:00:00Z"}]`)
		}
		sc.Steps = append(sc.Steps, world.Step{Op: "corrupt", Corrupt: &world.Corrupt{KeySel: rapid.IntRange(0, 1).Draw(rt, "file"), Kind: kind,
			Arg: rapid.IntRange(0, 6000).Draw(rt, "pos"), Data: data}})
		sc.Steps = append(sc.Steps, mk("c"))
		if gen.Pct(rt, "again", 50) {
			sc.Steps = append(sc.Steps, mk("d"))
		}
		return sc
	}
	RunCheck(t, c)
}

// TestC17Nonce: concurrent Sets of one value must all use different nonces (file prefixes) and
// produce different ciphertexts.
func TestC17Nonce(t *testing.T) {
	c := checkC17
	c.Exec = func(t *testing.T, sc *world.Scenario) (*oracle.Result, string) {
		r := oracle.NewResult()
		var cs c17Case
		if err := json.Unmarshal(sc.Case, &cs); err != nil {
			return r, err.Error()
		}
		c17Dir++
		dir := filepath.Join(world.ScratchRoot(), fmt.Sprintf("c17n-%d", c17Dir))
		_ = os.MkdirAll(dir, 0o755)
		defer os.RemoveAll(dir)
		conn, err := c17Open(cs.Path, dir, aesKey(cs.KeyLen, cs.Seed), true)
		if err != nil {
			return r, err.Error()
		}
		value := world.ExpandValue(cs.ValLen, cs.Seed)
		const workers, per = 16, 25
		var wg sync.WaitGroup
		for w := 0; w < workers; w++ {
			wg.Add(1)
			go func(w int) {
				defer wg.Done()
				for i := 0; i < per; i++ {
					_ = conn.Set(fmt.Sprintf("http://a.test/n/%d/%d#0", w, i), value)
				}
			}(w)
		}
		wg.Wait()
		seen := map[string]string{}
		files := filesUnder(dir)
		r.Evals = len(files)
		for _, f := range files {
			b, _ := os.ReadFile(f)
			if len(b) < 12 {
				continue
			}
			n := string(b[:12])
			if other, dup := seen[n]; dup {
				r.Fail("C17", "nonce-reused", -1, "%d concurrent writers: files %s and %s start with the same 12-byte nonce (identical ciphertext: %v)", workers, filepath.Base(other), filepath.Base(f), func() bool { o, _ := os.ReadFile(other); return bytes.Equal(o, b) }())
				return r, ""
			}
			seen[n] = f
		}
		r.NonTrivial = len(files) >= workers*per/2
		r.NTKeys = append(r.NTKeys, fmt.Sprintf("nonce/%s/%d/%d", cs.Path, cs.ValLen, cs.Seed))
		return r, ""
	}
	c.Gen = func(rt *rapid.T) *world.Scenario {
		return mkC17(c17Case{Kind: "nonce", Path: gen.Pick(rt, "path", "option", "dsn-on"), KeyLen: gen.Pick(rt, "klen", 16, 32),
			ValLen: gen.Pick(rt, "vlen", 0, 16, 1000), Seed: uint64(rapid.IntRange(1, 1<<30).Draw(rt, "seed"))})
	}
	RunCheck(t, c)
}

// TestC17OpenConc: many caches are opened at the same time, each with its own directory and its
// own way of switching encryption on (or none). Whatever the interleaving, a cache opened with
// encryption writes no plaintext, its files open under exactly the key it was given, and a cache
// opened without encryption is unaffected.
func execC17OpenConc(cs c17Case, r *oracle.Result) (*oracle.Result, string) {
	c17Dir++
	root := filepath.Join(world.ScratchRoot(), fmt.Sprintf("c17o-%d", c17Dir))
	defer os.RemoveAll(root)
	n := cs.KeyLen // number of concurrent opens
	for round := 0; round < 12; round++ {
		type slot struct {
			dir, key string
			enc      bool
			conn     driver.Conn
			err      error
		}
		slots := make([]*slot, n)
		for i := range slots {
			d := filepath.Join(root, fmt.Sprintf("r%d-%d", round, i))
			_ = os.MkdirAll(d, 0o755)
			slots[i] = &slot{dir: d, enc: (uint64(i)+cs.Seed+uint64(round))%2 == 0, key: aesKey(32, cs.Seed+uint64(i*131+round))}
		}
		var wg sync.WaitGroup
		start := make(chan struct{})
		for i, sl := range slots {
			wg.Add(1)
			go func(i int, sl *slot) {
				defer wg.Done()
				<-start
				switch {
				case sl.enc && i%3 == 0:
					sl.conn, sl.err = fscache.Open("app", fscache.WithBaseDir(sl.dir), fscache.WithEncryption(sl.key))
				case sl.enc:
					sl.conn, sl.err = store.Open("fscache://" + sl.dir + "?appname=app&encrypt=on&timeout=30s&encrypt_key=" + queryEscape(sl.key))
				case i%3 == 1:
					sl.conn, sl.err = fscache.Open("app", fscache.WithBaseDir(sl.dir), fscache.WithTimeout(30*time.Second), fscache.WithUpdateMTime(true))
				default:
					sl.conn, sl.err = store.Open("fscache://" + sl.dir + "?appname=app&connect_timeout=30s")
				}
			}(i, sl)
		}
		close(start)
		wg.Wait()
		value := world.ExpandValue(300, cs.Seed+uint64(round))
		const k = "http://a.test/c17/open#0"
		for i, sl := range slots {
			r.Evals++
			if sl.err != nil {
				r.Fail("C17", "concurrent-open-failed", i, "open %d of %d concurrent ones failed: %v", i, n, sl.err)
				return r, ""
			}
			if err := sl.conn.Set(k, value); err != nil {
				r.Fail("C17", "concurrent-open-broken", i, "Set on cache %d (enc=%v) failed: %v", i, sl.enc, err)
				return r, ""
			}
			files := filesUnder(sl.dir)
			if len(files) != 1 {
				r.Fail("C17", "concurrent-open-wrong-dir", i, "cache %d of %d opened concurrently wrote %d files under its own directory (want 1)", i, n, len(files))
				return r, ""
			}
			b, _ := os.ReadFile(files[0])
			leak := plaintextWindow(b, value) >= 0
			switch {
			case sl.enc && leak:
				r.Fail("C17", "plaintext-on-disk:concurrent-open", i, "cache %d of %d opened concurrently with encryption stores plaintext", i, n)
				return r, ""
			case !sl.enc && !leak:
				r.Fail("C17", "concurrent-open-option-leaked", i, "cache %d of %d opened concurrently WITHOUT encryption does not store the value as it is", i, n)
				return r, ""
			}
			if sl.enc {
				c2, err := fscache.Open("app", fscache.WithBaseDir(sl.dir), fscache.WithEncryption(sl.key))
				if err != nil {
					return r, err.Error()
				}
				if got, err := c2.Get(k); err != nil || !bytes.Equal(got, value) {
					r.Fail("C17", "concurrent-open-wrong-key", i, "the files of cache %d of %d opened concurrently do not open under the key it was given: %v", i, n, err)
					return r, ""
				}
			}
		}
		r.NTKeys = append(r.NTKeys, fmt.Sprintf("openconc/%d/%d/%d", n, cs.Seed, round))
	}
	r.NonTrivial = true
	return r, ""
}

// execC17Churn: an encrypted cache with every option on (update_mtime included) under
// concurrent Gets, Sets and Deletes of one key, while a scanner keeps reading every file of
// the directory: whatever fails in between (a file that vanished before its mtime could be
// updated, ...), no file ever holds a plaintext fragment.
func execC17Churn(cs c17Case, r *oracle.Result) (*oracle.Result, string) {
	c17Dir++
	dir := filepath.Join(world.ScratchRoot(), fmt.Sprintf("c17c-%d", c17Dir))
	_ = os.MkdirAll(dir, 0o755)
	defer os.RemoveAll(dir)
	key := aesKey(32, cs.Seed)
	conn, err := store.Open("fscache://" + dir + "?appname=app&encrypt=aesgcm&update_mtime=on&encrypt_key=" + queryEscape(key))
	if err != nil {
		return r, err.Error()
	}
	k := "http://a.test/c17/churn#0"
	if cs.URLLen > len(k) {
		k = "http://a.test/c17/churn" + strings.Repeat("p", cs.URLLen-len(k)) + "#0"
	}
	value := world.ExpandValue(cs.ValLen, cs.Seed)
	var stop atomic.Bool
	var leak atomic.Value
	var workers, scanner sync.WaitGroup
	scan := func() {
		for _, f := range filesUnder(dir) {
			if b, err := os.ReadFile(f); err == nil && len(b) > 0 && plaintextWindow(b, value) >= 0 {
				leak.Store(fmt.Sprintf("file %s (%d bytes) holds a plaintext fragment of the %d-byte value", filepath.Base(f), len(b), len(value)))
			}
		}
	}
	scanner.Add(1)
	go func() {
		defer scanner.Done()
		for !stop.Load() {
			scan()
		}
	}()
	rounds := 400
	for w := 0; w < 3; w++ {
		workers.Add(1)
		go func(w int) {
			defer workers.Done()
			for i := 0; i < rounds; i++ {
				switch (i + w) % 3 {
				case 0:
					_ = conn.Set(k, value)
				case 1:
					_, _ = conn.Get(k)
				case 2:
					if w == 0 {
						_ = conn.Delete(k)
					} else {
						_, _ = conn.Get(k)
					}
				}
			}
		}(w)
	}
	workers.Wait()
	stop.Store(true)
	scanner.Wait()
	scan()
	r.Evals += 3 * rounds
	r.NTKeys = append(r.NTKeys, fmt.Sprintf("churn/%d/%d/%d", cs.ValLen, cs.URLLen, cs.Seed))
	r.NonTrivial = true
	if l := leak.Load(); l != nil {
		r.Fail("C17", "plaintext-on-disk:churn", -1, "encrypted cache with update_mtime under concurrent Get/Set/Delete: %s", l)
	}
	return r, ""
}

func TestC17OpenConc(t *testing.T) {
	c := checkC17
	c.Gen = func(rt *rapid.T) *world.Scenario {
		return mkC17(c17Case{Kind: "openconc", KeyLen: rapid.IntRange(2, 16).Draw(rt, "opens"), Seed: uint64(rapid.IntRange(1, 1<<30).Draw(rt, "seed"))})
	}
	RunCheck(t, c)
}

func TestC17Churn(t *testing.T) {
	c := checkC17
	c.Gen = func(rt *rapid.T) *world.Scenario {
		return mkC17(c17Case{Kind: "churn", ValLen: gen.Pick(rt, "vlen", 16, 300, 5000, 70000), URLLen: gen.Pick(rt, "urllen", 0, 0, 250),
			Seed: uint64(rapid.IntRange(1, 1<<30).Draw(rt, "seed"))})
	}
	RunCheck(t, c)
}

func TestC17Replay(t *testing.T) {
	f := os.Getenv("VERIF_REPLAY")
	if f == "" {
		t.Skip("VERIF_REPLAY not set")
	}
	sc, err := world.Load(f)
	if err != nil {
		t.Fatal(err)
	}
	if sc.Case != nil {
		Replay(t, checkC17, f)
		return
	}
	Replay(t, Check{Prop: "C17", Mon: oracle.C17Transport}, f)
}
