package props

import (
	"context"
	"encoding/json"
	"fmt"
	"io"
	"net/http"
	"strings"
	"sync"
	"sync/atomic"
	"testing"

	"github.com/bartventer/httpcache"
	_ "github.com/bartventer/httpcache/store/memcache"
	"pgregory.net/rapid"

	"verif/harness/gen"
	"verif/harness/oracle"
	"verif/harness/world"
)

// TestC18Conc: only-if-cached requests issued in true parallel with requests that carry other
// Cache-Control values, on one transport, in real time (no bubble: what is looked for is state
// shared between calls that are running at the same instant). The origin must never see a
// request that carries only-if-cached, and every such request for a URI nothing is stored for
// gets the 504.
type c18ConcCase struct {
	Kind    string   `json:"kind"`
	Threads int      `json:"threads"`
	Iter    int      `json:"iter"`
	Others  []string `json:"others"` // Cache-Control values of the other requests
}

type c18Origin struct {
	oic   atomic.Int64 // requests with only-if-cached that reached the origin
	first atomic.Value
	n     atomic.Int64
}

func (o *c18Origin) RoundTrip(req *http.Request) (*http.Response, error) {
	o.n.Add(1)
	for _, v := range req.Header.Values("Cache-Control") {
		if strings.Contains(strings.ToLower(v), "only-if-cached") {
			if o.oic.Add(1) == 1 {
				o.first.Store(req.URL.String() + " Cache-Control=" + v)
			}
		}
	}
	h := http.Header{}
	h.Set("Cache-Control", "no-store")
	return &http.Response{StatusCode: 200, Status: "200 OK", Proto: "HTTP/1.1", ProtoMajor: 1, ProtoMinor: 1, Header: h,
		Body: io.NopCloser(strings.NewReader("ok")), ContentLength: 2, Request: req}, nil
}

func execC18Conc(t *testing.T, sc *world.Scenario) (*oracle.Result, string) {
	r := oracle.NewResult()
	var c c18ConcCase
	if err := json.Unmarshal(sc.Case, &c); err != nil {
		return r, err.Error()
	}
	origin := &c18Origin{}
	rt := httpcache.NewTransport("memcache://", httpcache.WithUpstream(origin))
	var wg sync.WaitGroup
	var not504 atomic.Int64
	var firstBad atomic.Value
	start := make(chan struct{})
	for ti := 0; ti < c.Threads; ti++ {
		wg.Add(1)
		go func(ti int) {
			defer wg.Done()
			<-start
			for i := 0; i < c.Iter; i++ {
				cc := "only-if-cached"
				if ti%2 == 1 {
					cc = c.Others[(ti+i)%len(c.Others)]
				}
				req, _ := http.NewRequestWithContext(context.Background(), "GET", fmt.Sprintf("http://a.test/c18/t%d/%d", ti, i%7), nil)
				req.Header.Set("Cache-Control", cc)
				resp, err := rt.RoundTrip(req)
				if err != nil {
					continue
				}
				_, _ = io.Copy(io.Discard, resp.Body)
				_ = resp.Body.Close()
				if ti%2 == 0 && resp.StatusCode != http.StatusGatewayTimeout {
					if not504.Add(1) == 1 {
						firstBad.Store(fmt.Sprintf("%s -> %d %s", req.URL, resp.StatusCode, resp.Header.Get("X-Httpcache-Status")))
					}
				}
			}
		}(ti)
	}
	close(start)
	wg.Wait()
	r.Evals += c.Threads * c.Iter
	r.NonTrivial = origin.n.Load() > 0
	r.NTKeys = append(r.NTKeys, fmt.Sprintf("c18conc/%d/%d/%s", c.Threads, c.Iter, strings.Join(c.Others, "|")))
	if n := origin.oic.Load(); n > 0 {
		r.Fail("C18", "origin-contacted:parallel", -1, "%d requests carrying only-if-cached reached the origin while %d goroutines used the transport in parallel (first: %v)", n, c.Threads, origin.first.Load())
	} else if n := not504.Load(); n > 0 {
		r.Fail("C18", "not-504:parallel", -1, "%d only-if-cached requests for URIs nothing is stored for were not answered 504 (first: %v)", n, firstBad.Load())
	}
	return r, ""
}

func TestC18Conc(t *testing.T) {
	c := Check{Prop: "C18", Exec: execC18Conc}
	c.Gen = func(rt *rapid.T) *world.Scenario {
		pool := []string{"max-age=0", "no-cache", "max-stale=5", "no-store", "min-fresh=1", "max-age=3600, max-stale"}
		n := rapid.IntRange(1, 3).Draw(rt, "nothers")
		var others []string
		for i := 0; i < n; i++ {
			others = append(others, gen.Pick(rt, fmt.Sprintf("o%d", i), pool...))
		}
		cs := c18ConcCase{Kind: "c18conc", Threads: gen.Pick(rt, "threads", 4, 8, 12, 16), Iter: gen.Pick(rt, "iter", 200, 500), Others: others}
		b, _ := json.Marshal(cs)
		return &world.Scenario{Prop: "C18", Case: b}
	}
	RunCheck(t, c)
}
