package props

import (
	"encoding/json"
	"fmt"
	"os"
	"path/filepath"
	"sort"
	"strconv"
	"strings"
	"testing"
	"time"

	"pgregory.net/rapid"

	"verif/harness/gen"
	"verif/harness/oracle"
	"verif/harness/world"
)

// Check couples a generator with a monitor.
type Check struct {
	Prop string
	Gen  func(*rapid.T) *world.Scenario
	Mon  func(*world.Obs) *oracle.Result
	Rule string
	// Exec, if set, replaces "run the scenario, apply Mon" (used by metamorphic checks).
	Exec func(t *testing.T, sc *world.Scenario) (*oracle.Result, string)
}

// KnownFinding is one entry of /verif/known_findings.json (read-only at run time).
type KnownFinding struct {
	Property string `json:"property,omitempty"`
	ID       string `json:"id,omitempty"`
	What     string `json:"what,omitempty"`
	Match    struct {
		KindPrefix string `json:"kind_prefix"`
	} `json:"match"`
	Fixed string `json:"fixed,omitempty"`
}

// Stats is what one shard reports to the driver.
type Stats struct {
	Prop         string             `json:"prop"`
	Shard        string             `json:"shard"`
	Evaluations  int                `json:"evaluations"`
	NonTrivial   []string           `json:"nontrivial_hashes"`
	Labels       map[string]int     `json:"labels"`
	Unspecified  int                `json:"unspecified"`
	KFHits       map[string]int     `json:"kf_hits"`
	Samples      []json.RawMessage  `json:"samples"`
	Failed       bool               `json:"failed"`
	Violations   []oracle.Violation `json:"violations,omitempty"`
	LastFail     string             `json:"lastfail,omitempty"`
	Inconclusive []string           `json:"inconclusive,omitempty"`
	Extra        map[string]any     `json:"extra,omitempty"`
}

type runner struct {
	c      Check
	outDir string
	shard  string
	stats  *Stats
	nt     map[string]bool
	kfs    []KnownFinding
	frozen bool // set at the first failure: everything after is shrinking
}

func outDir() string {
	d := os.Getenv("VERIF_OUT")
	if d == "" {
		d = filepath.Join(os.TempDir(), "verif-out")
	}
	_ = os.MkdirAll(d, 0o755)
	return d
}

func loadKFs(prop string) []KnownFinding {
	p := os.Getenv("VERIF_KF")
	if p == "" {
		p = "/verif/known_findings.json"
	}
	b, err := os.ReadFile(p)
	if err != nil {
		return nil
	}
	var all []KnownFinding
	if err := json.Unmarshal(b, &all); err != nil {
		panic("known_findings.json: " + err.Error())
	}
	var out []KnownFinding
	for _, k := range all {
		if k.Fixed == "" && k.Property == prop && k.Match.KindPrefix != "" {
			out = append(out, k)
		}
	}
	return out
}

func newRunner(c Check) *runner {
	r := &runner{c: c, outDir: outDir(), shard: os.Getenv("VERIF_SHARD"), nt: map[string]bool{}}
	if r.shard == "" {
		r.shard = "0"
	}
	r.stats = &Stats{Prop: c.Prop, Shard: r.shard, Labels: map[string]int{}, KFHits: map[string]int{}, Extra: map[string]any{}}
	r.kfs = loadKFs(c.Prop)
	return r
}

func (r *runner) path(name string) string {
	return filepath.Join(r.outDir, fmt.Sprintf("%s.%s.%s", r.c.Prop, r.shard, name))
}

func (r *runner) flush() {
	r.stats.NonTrivial = r.stats.NonTrivial[:0]
	for h := range r.nt {
		r.stats.NonTrivial = append(r.stats.NonTrivial, h)
	}
	sort.Strings(r.stats.NonTrivial)
	b, _ := json.Marshal(r.stats)
	_ = os.WriteFile(r.path("stats.json"), b, 0o644)
}

// judge runs one scenario and returns the violations not covered by a known finding.
func (r *runner) judge(t *testing.T, sc *world.Scenario, count bool) []oracle.Violation {
	_ = os.WriteFile(r.path("journal.json"), sc.JSON(), 0o644)
	var res *oracle.Result
	if r.c.Exec != nil {
		var problem string
		res, problem = r.c.Exec(t, sc)
		if problem != "" {
			if count && !r.frozen {
				r.stats.Inconclusive = append(r.stats.Inconclusive, problem)
			}
			return nil
		}
	} else {
		obs := world.Run(t, sc)
		if p := oracle.HarnessProblem(obs); p != "" {
			if count && !r.frozen {
				r.stats.Inconclusive = append(r.stats.Inconclusive, p)
			}
			return nil
		}
		res = r.c.Mon(obs)
	}
	var bad []oracle.Violation
	for _, v := range res.Violations {
		matched := false
		for _, k := range r.kfs {
			if strings.HasPrefix(v.Kind, k.Match.KindPrefix) {
				if count && !r.frozen {
					r.stats.KFHits[k.ID]++
				}
				matched = true
				break
			}
		}
		if !matched {
			bad = append(bad, v)
		}
	}
	if count && !r.frozen {
		if res.Evals > 0 {
			r.stats.Evaluations += res.Evals
		} else {
			r.stats.Evaluations++
		}
		for _, k := range res.NTKeys {
			r.nt[k] = true
		}
		r.stats.Unspecified += res.Unspecified
		for l, n := range res.Labels {
			r.stats.Labels[l] += n
		}
		if res.NonTrivial {
			h := sc.Hash()
			if !r.nt[h] {
				r.nt[h] = true
				if len(r.stats.Samples) < 4 {
					b, _ := json.Marshal(sc)
					r.stats.Samples = append(r.stats.Samples, b)
				}
			}
		}
	}
	if len(bad) > 0 {
		r.frozen = true
		r.stats.Failed = true
		r.stats.Violations = bad
		r.stats.LastFail = r.path("lastfail.json")
		out := sc
		if res.Replay != nil {
			out = res.Replay
		}
		_ = os.WriteFile(r.stats.LastFail, out.JSON(), 0o644)
		r.flush()
	}
	return bad
}

// regressDir holds shrunk failures kept as library-free regression inputs.
func regressDir(prop string) string {
	d := os.Getenv("VERIF_REGRESS")
	if d == "" {
		d = "/verif/regress"
	}
	return filepath.Join(d, prop)
}

func (r *runner) runRegress(t *testing.T) bool {
	files, _ := filepath.Glob(filepath.Join(regressDir(r.c.Prop), "*.json"))
	sort.Strings(files)
	for _, f := range files {
		sc, err := world.Load(f)
		if err != nil {
			t.Fatalf("regress %s: %v", f, err)
		}
		if bad := r.judge(t, sc, true); len(bad) > 0 {
			r.stats.Extra["regress_file"] = f
			r.flush()
			t.Errorf("regression input %s fails: %v", f, bad[0])
			return false
		}
		r.stats.Labels["regress-input"]++
	}
	return true
}

// RunCheck is the body of every TestCnn.
func RunCheck(t *testing.T, c Check) {
	r := newRunner(c)
	defer world.CleanScratch()
	defer r.flush()
	if !r.runRegress(t) {
		return
	}
	rapid.Check(t, func(rt *rapid.T) {
		sc := c.Gen(rt)
		gen.MaybeLogger(rt, sc)
		if sc.Zone == "" {
			sc.Zone = world.ZoneName() // a replay of this case runs under the same local zone
		}
		if bad := r.judge(t, sc, true); len(bad) > 0 {
			rt.Fatalf("%s", bad[0].String())
		}
	})
}

// RunEnum judges an enumerated list of cases (bounded-exhaustive sub-spaces); it stops at the
// first violation, whose case is the replay file.
func RunEnum(t *testing.T, c Check, cases func(yield func(*world.Scenario) bool)) {
	r := newRunner(c)
	defer world.CleanScratch()
	defer r.flush()
	if !r.runRegress(t) {
		return
	}
	cases(func(sc *world.Scenario) bool {
		if bad := r.judge(t, sc, true); len(bad) > 0 {
			t.Errorf("%s", bad[0].String())
			return false
		}
		return true
	})
}

// Replay executes one scenario file with the property's monitor (no library involved).
func Replay(t *testing.T, c Check, path string) {
	r := newRunner(c)
	defer world.CleanScratch()
	defer r.flush()
	sc, err := world.Load(path)
	if err != nil {
		t.Fatalf("load %s: %v", path, err)
	}
	if os.Getenv("VERIF_DEBUG") != "" {
		obs := world.Run(t, sc)
		for _, ex := range obs.Exchanges {
			t.Logf("%s", oracle.SummarizeExchange(obs, ex))
			if src, ok := obs.FromStore(ex); ok {
				for _, v := range oracle.Versions(obs, src, ex.StartSeq) {
					lo, hi, exact := v.AgeBounds(ex.StartNs)
					llo, lhi, kind, unspec := v.Lifetime()
					t.Logf("      version %q: age %d..%d exact=%v life %d..%d %s unspec=%v hdr=%v", v.Why, lo, hi, exact, llo, lhi, kind, unspec, v.Header)
				}
			}
		}
		for _, op := range obs.Ops {
			t.Logf("   op#%d ex=%d %s %q len=%d err=%q fault=%s", op.N, op.Ex, op.Op, op.Key, len(op.Val), op.Err, op.Fault)
			if op.Op == "set" && len(op.Val) > 0 && op.Val[0] == '[' {
				t.Logf("        index = %s", op.Val)
			} else if op.Op == "set" && os.Getenv("VERIF_DEBUG") == "2" {
				t.Logf("        entry = %q", op.Val)
			}
		}
		if obs.Leak != "" || obs.Fatal != "" {
			t.Logf("leak=%q fatal=%q", obs.Leak, obs.Fatal)
		}
	}
	bad := r.judge(t, sc, true)
	for _, v := range bad {
		t.Errorf("%s", v.String())
	}
}

var checks = map[string]Check{}

func register(c Check) { checks[c.Prop] = c }

// TestReplay replays VERIF_REPLAY with the monitor of VERIF_PROP.
func TestReplay(t *testing.T) {
	p, f := os.Getenv("VERIF_PROP"), os.Getenv("VERIF_REPLAY")
	if p == "" || f == "" {
		t.Skip("VERIF_PROP / VERIF_REPLAY not set")
	}
	c, ok := checks[p]
	if !ok {
		t.Fatalf("no scenario check registered for %s", p)
	}
	if sc, err := world.Load(f); err == nil && p == "C20" && len(sc.Case) > 0 {
		c = Check{Prop: "C20", Exec: execC20Burst} // a case of TestC20Burst, not a request history
	}
	if sc, err := world.Load(f); err == nil && p == "C18" && len(sc.Case) > 0 {
		c = Check{Prop: "C18", Exec: execC18Conc} // a case of TestC18Conc
	}
	Replay(t, c, f)
}

// The local time zone of the test process is varied per shard: nothing in the cache may depend
// on it (HTTP dates are GMT).
func init() {
	zones := []*time.Location{world.Zones["utc"], world.Zones["east"], world.Zones["west"]}
	h := 0
	for _, c := range os.Getenv("VERIF_SHARD") {
		h = h*31 + int(c)
	}
	if h < 0 {
		h = -h
	}
	time.Local = zones[h%len(zones)]
}

func envInt(name string, def int) int {
	if v := os.Getenv(name); v != "" {
		if n, err := strconv.Atoi(v); err == nil {
			return n
		}
	}
	return def
}

func thorough() bool { return os.Getenv("VERIF_TIER") == "thorough" }
