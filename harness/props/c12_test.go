package props

import (
	"testing"

	"verif/harness/gen"
	"verif/harness/oracle"
	"verif/harness/world"
)

func execC12(t *testing.T, sc *world.Scenario) (*oracle.Result, string) {
	if sc.Twin == nil {
		return oracle.NewResult(), "scenario has no twin"
	}
	a := world.Run(t, sc)
	if p := oracle.HarnessProblem(a); p != "" {
		return nil, p
	}
	b := world.Run(t, sc.Twin)
	if p := oracle.HarnessProblem(b); p != "" {
		return nil, p
	}
	return oracle.C12(a, b, sc.Twin.Note), ""
}

var checkC12 = Check{Prop: "C12", Gen: gen.C12, Exec: execC12}

func init() { register(checkC12) }

func TestC12(t *testing.T) { RunCheck(t, checkC12) }
