package props

import (
	"bytes"
	"context"
	"encoding/json"
	"fmt"
	"io"
	"net/http"
	"sync/atomic"
	"testing"
	"time"

	"github.com/bartventer/httpcache"
	_ "github.com/bartventer/httpcache/store/memcache"
	"pgregory.net/rapid"

	"verif/harness/gen"
	"verif/harness/oracle"
	"verif/harness/world"
)

// TestC20Burst: a burst of stale hits against an origin that answers no revalidation at all.
// However many background requests are outstanding, the next caller is served without waiting
// for any of them to end.
//
// This part runs in real time, outside a synctest bubble: state shared between transports
// (package-level pools, limiters) is not part of a bubble, and a caller blocked on it would stall
// the virtual clock instead of being observable. The oracle is an ordering, not a duration: a
// foreground call is a violation when it returns only AFTER the origin has seen a background
// request being cancelled (which happens one revalidation timeout, >= 5 s, after the burst
// began) and itself was pending for more than half of that timeout. A burst takes
// milliseconds, so on a tree that holds the property no background request ends while it runs.
type c20BurstCase struct {
	Kind   string `json:"kind"`
	Burst  int    `json:"burst"`
	URLs   int    `json:"urls"`
	SWRSec int    `json:"swr_sec"` // 0 = default (5 s)
}

type c20Origin struct {
	serial    atomic.Int64
	cancelled atomic.Int64
	hanging   atomic.Int64
	hang      atomic.Bool
}

func (o *c20Origin) RoundTrip(req *http.Request) (*http.Response, error) {
	if o.hang.Load() {
		o.hanging.Add(1)
		<-req.Context().Done()
		o.cancelled.Add(1)
		return nil, req.Context().Err()
	}
	n := o.serial.Add(1)
	body := []byte(fmt.Sprintf("<<s%d>>", n))
	h := http.Header{}
	h.Set("Date", time.Now().UTC().Format(http.TimeFormat))
	h.Set("Cache-Control", "max-age=0, stale-while-revalidate=100000")
	h.Set("Etag", fmt.Sprintf(`"v%d"`, n))
	h.Set("X-Tok", fmt.Sprint(n))
	return &http.Response{StatusCode: 200, Status: "200 OK", Proto: "HTTP/1.1", ProtoMajor: 1, ProtoMinor: 1, Header: h,
		Body: io.NopCloser(bytes.NewReader(body)), ContentLength: int64(len(body)), Request: req}, nil
}

// execC20Burst runs the burst; a suspected violation is only reported when a second, independent
// run of the same case shows it again (a single stall of the whole process for several seconds -
// a paused VM - could otherwise look like a caller that waited).
func execC20Burst(t *testing.T, sc *world.Scenario) (*oracle.Result, string) {
	r, problem := execC20BurstOnce(t, sc)
	if problem != "" || len(r.Violations) == 0 {
		return r, problem
	}
	r2, problem2 := execC20BurstOnce(t, sc)
	if problem2 == "" && len(r2.Violations) > 0 {
		return r2, ""
	}
	r.Violations = nil
	r.Label("burst-suspicion-not-reproduced")
	return r, ""
}

func execC20BurstOnce(t *testing.T, sc *world.Scenario) (*oracle.Result, string) {
	r := oracle.NewResult()
	var c c20BurstCase
	if err := json.Unmarshal(sc.Case, &c); err != nil {
		return r, err.Error()
	}
	origin := &c20Origin{}
	opts := []httpcache.Option{httpcache.WithUpstream(origin)}
	timeout := 5 * time.Second
	if c.SWRSec > 0 {
		timeout = time.Duration(c.SWRSec) * time.Second
		opts = append(opts, httpcache.WithSWRTimeout(timeout))
	}
	rt := httpcache.NewTransport("memcache://", opts...)
	get := func(i int) (status string, dur time.Duration, err error) {
		req, _ := http.NewRequestWithContext(context.Background(), "GET", fmt.Sprintf("http://a.test/c20/burst/%d", i%c.URLs), nil)
		t0 := time.Now()
		resp, err := rt.RoundTrip(req)
		dur = time.Since(t0)
		if err != nil {
			return "", dur, err
		}
		_, _ = io.Copy(io.Discard, resp.Body)
		_ = resp.Body.Close()
		return resp.Header.Get("X-Httpcache-Status"), dur, nil
	}
	for i := 0; i < c.URLs; i++ {
		if _, _, err := get(i); err != nil {
			return r, "priming failed: " + err.Error()
		}
	}
	origin.hang.Store(true)
	stale := 0
	for i := 0; i < c.Burst; i++ {
		outstanding := origin.hanging.Load() - origin.cancelled.Load()
		status, dur, err := get(i)
		r.Evals++
		if err != nil {
			r.Fail("C20", "burst-foreground-failed", i, "stale hit %d of the burst failed: %v", i, err)
			return r, ""
		}
		if status == "STALE" {
			stale++
		}
		if outstanding >= 32 {
			r.NTKeys = append(r.NTKeys, fmt.Sprintf("burst/%d/%d/%d/%d", c.Burst, c.URLs, c.SWRSec, i))
		}
		if origin.cancelled.Load() > 0 && dur > timeout/2 {
			r.Fail("C20", "burst-foreground-waited", i, "stale hit %d of a burst (%d background revalidations outstanding, origin silent) returned only after %v, when a background request had reached its timeout of %v: the caller waited for the background work", i, outstanding, dur.Round(time.Millisecond), timeout)
			return r, ""
		}
	}
	if stale == 0 {
		return r, "no stale hit in the burst"
	}
	r.Label(fmt.Sprintf("burst>=%d", (c.Burst/50)*50))
	r.NonTrivial = len(r.NTKeys) > 0
	return r, ""
}

func TestC20Burst(t *testing.T) {
	c := Check{Prop: "C20", Exec: execC20Burst}
	c.Gen = func(rt *rapid.T) *world.Scenario {
		cs := c20BurstCase{Kind: "burst", Burst: gen.Pick(rt, "burst", 33, 40, 70, 130, 300), URLs: gen.Pick(rt, "urls", 1, 1, 3, 40), SWRSec: gen.Pick(rt, "swr", 0, 0, 8)}
		b, _ := json.Marshal(cs)
		return &world.Scenario{Prop: "C20", Case: b}
	}
	RunCheck(t, c)
}
