package props

import (
	"testing"

	"pgregory.net/rapid"

	"verif/harness/world"

	"verif/harness/gen"
	"verif/harness/oracle"
)

func init() {
	for _, c := range []Check{
		{Prop: "C02", Gen: gen.C02, Mon: oracle.C02},
		{Prop: "C03", Gen: gen.C03, Mon: oracle.C03},
		{Prop: "C04", Gen: gen.C04, Mon: oracle.C04},
		{Prop: "C19", Gen: func(t *rapid.T) *world.Scenario { return gen.C19(t, envInt("VERIF_C19_N", 25)) }, Mon: oracle.C19},
		{Prop: "C05", Gen: func(t *rapid.T) *world.Scenario { return gen.C05(t, thorough()) }, Mon: oracle.C05},
		{Prop: "C06", Gen: gen.C06, Mon: oracle.C06},
		{Prop: "C07", Gen: gen.C07, Mon: oracle.C07},
		{Prop: "C08", Gen: gen.C08, Mon: oracle.C08},
		{Prop: "C09", Gen: gen.C09, Mon: oracle.C09},
		{Prop: "C11", Gen: gen.C11, Mon: oracle.C11},
		{Prop: "C13", Gen: gen.C13, Mon: oracle.C13},
		{Prop: "C18", Gen: gen.C18, Mon: oracle.C18},
		{Prop: "C20", Gen: gen.C20, Mon: oracle.C20},
	} {
		register(c)
	}
}

func TestC02(t *testing.T) { RunCheck(t, checks["C02"]) }
func TestC03(t *testing.T) { RunCheck(t, checks["C03"]) }
func TestC04(t *testing.T) { RunCheck(t, checks["C04"]) }
func TestC19(t *testing.T) { RunCheck(t, checks["C19"]) }
func TestC05(t *testing.T) { RunCheck(t, checks["C05"]) }
func TestC06(t *testing.T) { RunCheck(t, checks["C06"]) }
func TestC07(t *testing.T) { RunCheck(t, checks["C07"]) }
func TestC08(t *testing.T) { RunCheck(t, checks["C08"]) }
func TestC09(t *testing.T) { RunCheck(t, checks["C09"]) }
func TestC11(t *testing.T) { RunCheck(t, checks["C11"]) }
func TestC13(t *testing.T) { RunCheck(t, checks["C13"]) }
func TestC18(t *testing.T) { RunCheck(t, checks["C18"]) }
func TestC20(t *testing.T) { RunCheck(t, checks["C20"]) }
