package props

import (
	"os"
	"testing"

	"pgregory.net/rapid"

	"verif/harness/gen"
	"verif/harness/oracle"
	"verif/harness/world"
)

var checkC16 = Check{Prop: "C16", Gen: gen.C16, Mon: oracle.C16}

func init() { register(checkC16) }

// TestC16 runs generated concurrent scenarios (free-running goroutines) against the
// self-consistency / caller-ownership oracle.
func TestC16(t *testing.T) { RunCheck(t, checkC16) }

// TestC16Race is the same under the race detector (built with -race): every case runs as a
// sub-test so that a race report is attributed to the case that produced it. Race reports are
// de-duplicated by the detector, so a racy case cannot be shrunk: it is saved as it is.
func TestC16Race(t *testing.T) {
	r := newRunner(checkC16)
	defer world.CleanScratch()
	defer r.flush()
	if !r.runRegress(t) {
		return
	}
	n := 0
	rapid.Check(t, func(rt *rapid.T) {
		sc := gen.C16(rt)
		var bad []oracle.Violation
		n++
		ok := t.Run("case", func(st *testing.T) { bad = r.judge(st, sc, true) })
		if len(bad) > 0 {
			rt.Fatalf("%s", bad[0].String())
		}
		if !ok {
			// the sub-test failed without an oracle violation: the race detector reported
			r.frozen = true
			r.stats.Failed = true
			r.stats.Violations = []oracle.Violation{{Prop: "C16", Kind: "data-race", Ex: -1, Detail: "the race detector reported a data race during this case (see the test output)"}}
			r.stats.LastFail = r.path("lastfail.json")
			_ = os.WriteFile(r.stats.LastFail, sc.JSON(), 0o644)
			r.flush()
			rt.Fatalf("data race reported during case %d", n)
		}
	})
}
