package props

import (
	"fmt"
	"os"
	"testing"

	"pgregory.net/rapid"

	"verif/harness/gen"
	"verif/harness/oracle"
	"verif/harness/world"
)

var checkC16 = Check{Prop: "C16", Gen: gen.C16, Mon: oracle.C16}

func init() { register(checkC16) }

// TestC16 runs generated concurrent scenarios (free-running goroutines) against the
// self-consistency / caller-ownership oracle.
func TestC16(t *testing.T) { RunCheck(t, checkC16) }

// TestC16Race is the same under the race detector (built with -race): every case runs as a
// sub-test so that a race report is attributed to the case that produced it. Race reports are
// de-duplicated by the detector, so a racy case cannot be shrunk: it is saved as it is.
func TestC16Race(t *testing.T) {
	r := newRunner(checkC16)
	defer world.CleanScratch()
	defer r.flush()
	if !r.runRegress(t) {
		return
	}
	n := 0
	rapid.Check(t, func(rt *rapid.T) {
		sc := gen.C16(rt)
		var bad []oracle.Violation
		n++
		ok := t.Run("case", func(st *testing.T) { bad = r.judge(st, sc, true) })
		if len(bad) > 0 {
			rt.Fatalf("%s", bad[0].String())
		}
		if !ok {
			// the sub-test failed without an oracle violation: the race detector reported
			r.frozen = true
			r.stats.Failed = true
			r.stats.Violations = []oracle.Violation{{Prop: "C16", Kind: "data-race", Ex: -1, Detail: "the race detector reported a data race during this case (see the test output)"}}
			r.stats.LastFail = r.path("lastfail.json")
			_ = os.WriteFile(r.stats.LastFail, sc.JSON(), 0o644)
			r.flush()
			rt.Fatalf("data race reported during case %d", n)
		}
	})
}

// execC16Sched explores the interleavings of one generated concurrent program at the
// granularity of store and origin operations: depth-first over all schedules (bounded by
// VERIF_C16_MAXSCHED per program), each judged by the C16 oracle.
func execC16Sched(t *testing.T, sc *world.Scenario) (*oracle.Result, string) {
	total := oracle.NewResult()
	if len(sc.Sched) > 0 {
		// a concrete replay
		obs := world.Run(t, sc)
		if p := oracle.HarnessProblem(obs); p != "" {
			return nil, p
		}
		res := oracle.C16(obs)
		res.Evals = 1
		return res, ""
	}
	limit := envInt("VERIF_C16_MAXSCHED", 300)
	var sched []int
	runs := 0
	exhausted := false
	for runs < limit {
		cp := *sc
		cp.Controlled = true
		cp.Sched = append([]int{0}, sched...)[1:] // copy; an empty schedule still means "controlled"
		obs := world.Run(t, &cp)
		if p := oracle.HarnessProblem(obs); p != "" {
			return nil, p
		}
		runs++
		total.Evals++
		res := oracle.C16(obs)
		switches := 0
		for i := 1; i < len(obs.Trace); i++ {
			if obs.Trace[i][:3] != obs.Trace[i-1][:3] {
				switches++
			}
		}
		if switches > 1 {
			total.NTKeys = append(total.NTKeys, sc.Hash()+"/"+fmt.Sprint(cp.Sched))
		}
		for l, n := range res.Labels {
			total.Labels[l] += n
		}
		if len(res.Violations) > 0 {
			total.Violations = res.Violations
			cp.Sched = append(cp.Sched[:0:0], cp.Sched...)
			if len(cp.Sched) == 0 {
				cp.Sched = []int{0}
			}
			total.Replay = &cp
			return total, ""
		}
		// determinism of the controlled execution (every 8th schedule)
		if runs%8 == 1 {
			again := world.Run(t, &cp)
			if fmt.Sprint(again.Trace) != fmt.Sprint(obs.Trace) {
				total.Label("nondeterministic-trace")
				if os.Getenv("VERIF_DEBUG") != "" {
					t.Logf("NONDET\n A=%v\n B=%v", obs.Trace, again.Trace)
				}
				total.Unspecified++
			}
		}
		// next schedule in depth-first order
		alts := obs.Alts
		for len(sched) < len(alts) {
			sched = append(sched, 0)
		}
		sched = sched[:len(alts)]
		i := len(sched) - 1
		for i >= 0 && sched[i]+1 >= alts[i] {
			i--
		}
		if i < 0 {
			exhausted = true
			break
		}
		sched[i]++
		sched = sched[:i+1]
	}
	if exhausted {
		total.Label("schedule-space-exhausted")
	} else {
		total.Label("schedule-space-truncated")
	}
	total.Labels["schedules"] += runs
	total.NonTrivial = len(total.NTKeys) > 0
	return total, ""
}

// TestC16Sched: rapid draws small concurrent programs; all their schedules are enumerated.
func TestC16Sched(t *testing.T) {
	c := Check{Prop: "C16", Exec: execC16Sched}
	c.Gen = func(rt *rapid.T) *world.Scenario {
		sc := &world.Scenario{Prop: "C16", Backend: "mem"}
		for i := 0; i < rapid.IntRange(0, 2).Draw(rt, "warm"); i++ {
			sc.Steps = append(sc.Steps, gen.ReqStep(gen.C16Req(rt, fmt.Sprintf("w%d", i), false)))
			if gen.Pct(rt, fmt.Sprintf("ws%d", i), 40) {
				sc.Steps = append(sc.Steps, gen.SleepStep(gen.Pick(rt, fmt.Sprintf("wd%d", i), int64(1), 2, 61)))
			}
		}
		nth := 2
		if thorough() && gen.Pct(rt, "three", 30) {
			nth = 3
		}
		for ti := 0; ti < nth; ti++ {
			n := rapid.IntRange(1, 2).Draw(rt, fmt.Sprintf("n%d", ti))
			var th []*world.Req
			for i := 0; i < n; i++ {
				rq := gen.C16Req(rt, fmt.Sprintf("t%d-%d", ti, i), false)
				rq.Uncond.LatencyNs = 0
				if rq.Cond != nil {
					rq.Cond.LatencyNs = 0
				}
				th = append(th, rq)
			}
			sc.Threads = append(sc.Threads, th)
		}
		return sc
	}
	RunCheck(t, c)
}

// ---------------------------------------------------------------------------
// C19: crash points inside an invalidation

// execC19Crash runs the history once to find the store operations of the unsafe exchange and
// then once per operation with the process "dying" right before it: whatever was reachable from
// an invalidated URI's index before must not survive its index.
func execC19Crash(t *testing.T, sc *world.Scenario) (*oracle.Result, string) {
	total := oracle.NewResult()
	run := func(s *world.Scenario) (*world.Obs, string) {
		obs := world.Run(t, s)
		if obs.Fatal != "" {
			return nil, obs.Fatal
		}
		return obs, ""
	}
	if len(sc.Faults) > 0 {
		obs, p := run(sc)
		if p != "" {
			return nil, p
		}
		res := oracle.C19Crash(obs)
		res.Evals = 1
		return res, ""
	}
	base, p := run(sc)
	if p != "" {
		return nil, p
	}
	for _, ex := range base.Exchanges {
		safe := ex.Req.Method == "GET" || ex.Req.Method == "HEAD" || ex.Req.Method == "OPTIONS"
		if safe {
			continue
		}
		for _, op := range base.Ops {
			if op.Ex != ex.Idx {
				continue
			}
			cp := *sc
			cp.Faults = []world.Fault{{At: op.N, Kind: "crash"}}
			obs, p := run(&cp)
			if p != "" {
				continue
			}
			total.Evals++
			total.NTKeys = append(total.NTKeys, fmt.Sprintf("%s/crash@%d", sc.Hash(), op.N))
			res := oracle.C19Crash(obs)
			for l, n := range res.Labels {
				total.Labels[l] += n
			}
			if len(res.Violations) > 0 {
				total.Violations = res.Violations
				total.Replay = &cp
				return total, ""
			}
		}
	}
	total.NonTrivial = len(total.NTKeys) > 0
	return total, ""
}

func TestC19Crash(t *testing.T) {
	c := Check{Prop: "C19", Exec: execC19Crash}
	c.Gen = func(rt *rapid.T) *world.Scenario {
		sc := &world.Scenario{Prop: "C19", Backend: gen.Pick(rt, "backend", "mem", "mem", "fs")}
		urls := []string{"http://a.test/c19/a", "http://a.test/c19/b"}
		for i := 0; i < rapid.IntRange(2, 5).Draw(rt, "fill"); i++ {
			lbl := fmt.Sprintf("f%d", i)
			rq := &world.Req{Method: "GET", URL: urls[gen.Weighted(rt, lbl+"-u", 60, 40)], Header: [][2]string{gen.H("X-A", gen.Pick(rt, lbl+"-xa", "1", "2", "3"))}}
			rq.Uncond = world.Reply{Kind: "resp", Status: 200, Body: world.Body{Len: 12}, Header: [][2]string{gen.H("Date", "$T+0"), gen.H("Cache-Control", "max-age=1000"), gen.H("Etag", `"v$S"`), gen.H("Vary", gen.Pick(rt, lbl+"-vary", "X-A", "X-A", "*", ""))}}
			sc.Steps = append(sc.Steps, gen.ReqStep(rq))
		}
		un := &world.Req{Method: gen.Pick(rt, "m", "POST", "DELETE", "PUT", "PATCH"), URL: urls[0]}
		un.Uncond = world.Reply{Kind: "resp", Status: gen.Pick(rt, "st", 200, 204), Body: world.Body{Len: 4}, Header: [][2]string{gen.H("Date", "$T+0")}}
		if loc := gen.Pick(rt, "loc", "", "/c19/b", "/c19/b", "/c19/a"); loc != "" {
			un.Uncond.Header = append(un.Uncond.Header, gen.H(gen.Pick(rt, "locf", "Location", "Content-Location"), loc))
		}
		sc.Steps = append(sc.Steps, gen.ReqStep(un), world.Step{Op: "reopen"})
		for i, u := range urls {
			rq := &world.Req{Method: "GET", URL: u, Header: [][2]string{gen.H("X-A", "1")}}
			rq.Uncond = world.Reply{Kind: "resp", Status: 200, Body: world.Body{Len: 12}, Header: [][2]string{gen.H("Date", "$T+0"), gen.H("Cache-Control", "max-age=1000"), gen.H("Etag", `"v$S"`), gen.H("Vary", "X-A")}}
			_ = i
			sc.Steps = append(sc.Steps, gen.ReqStep(rq))
		}
		return sc
	}
	RunCheck(t, c)
}

// ---------------------------------------------------------------------------
// C07 under all interleavings of an invalidation with a concurrent GET

func execC07Sched(t *testing.T, sc *world.Scenario) (*oracle.Result, string) {
	total := oracle.NewResult()
	if len(sc.Sched) > 0 {
		obs := world.Run(t, sc)
		if p := oracle.HarnessProblem(obs); p != "" {
			return nil, p
		}
		res := oracle.C07(obs)
		res.Evals = 1
		return res, ""
	}
	limit := envInt("VERIF_C16_MAXSCHED", 300)
	var sched []int
	for runs := 0; runs < limit; runs++ {
		cp := *sc
		cp.Controlled = true
		cp.Sched = append([]int(nil), sched...)
		obs := world.Run(t, &cp)
		if p := oracle.HarnessProblem(obs); p != "" {
			return nil, p
		}
		total.Evals++
		total.NTKeys = append(total.NTKeys, sc.Hash()+"/"+fmt.Sprint(cp.Sched))
		res := oracle.C07(obs)
		for l, n := range res.Labels {
			total.Labels[l] += n
		}
		if len(res.Violations) > 0 {
			total.Violations = res.Violations
			if len(cp.Sched) == 0 {
				cp.Sched = []int{0}
			}
			total.Replay = &cp
			return total, ""
		}
		alts := obs.Alts
		for len(sched) < len(alts) {
			sched = append(sched, 0)
		}
		sched = sched[:len(alts)]
		i := len(sched) - 1
		for i >= 0 && sched[i]+1 >= alts[i] {
			i--
		}
		if i < 0 {
			total.Label("schedule-space-exhausted")
			break
		}
		sched[i]++
		sched = sched[:i+1]
	}
	total.NonTrivial = true
	return total, ""
}

// TestC07Sched: an unsafe request races with GETs of the URIs it invalidates; afterwards the
// entries stored before it must not come back.
func TestC07Sched(t *testing.T) {
	c := Check{Prop: "C07", Exec: execC07Sched}
	c.Gen = func(rt *rapid.T) *world.Scenario {
		sc := &world.Scenario{Prop: "C07", Backend: "mem"}
		a, b := "http://a.test/c07/a", "http://a.test/c07/b"
		get := func(lbl, u, xa string) *world.Req {
			rq := &world.Req{Method: "GET", URL: u, Header: [][2]string{gen.H("X-A", xa)}}
			rq.Uncond = world.Reply{Kind: "resp", Status: 200, Body: world.Body{Len: 12}, Header: [][2]string{gen.H("Date", "$T+0"), gen.H("Cache-Control", "max-age=100000"), gen.H("Etag", `"v$S"`), gen.H("Vary", "X-A")}}
			rq.Cond = gen.Simple304()
			return rq
		}
		sc.Steps = append(sc.Steps, gen.ReqStep(get("f0", b, "1")))
		if gen.Pct(rt, "fillA", 60) {
			sc.Steps = append(sc.Steps, gen.ReqStep(get("f1", a, "1")))
		}
		un := &world.Req{Method: gen.Pick(rt, "m", "POST", "PUT", "DELETE"), URL: a}
		un.Uncond = world.Reply{Kind: "resp", Status: gen.Pick(rt, "st", 200, 204, 201), Body: world.Body{Len: 4}, Header: [][2]string{gen.H("Date", "$T+0")}}
		if loc := gen.Pick(rt, "loc", "/c07/b", "/c07/b", "http://a.test/c07/b", ""); loc != "" {
			un.Uncond.Header = append(un.Uncond.Header, gen.H(gen.Pick(rt, "locf", "Location", "Content-Location"), loc))
		}
		racer := get("r", gen.Pick(rt, "racer-url", b, b, a), gen.Pick(rt, "racer-xa", "2", "2", "1"))
		sc.Threads = [][]*world.Req{{un}, {racer}}
		if gen.Pct(rt, "third", 30) {
			sc.Threads = append(sc.Threads, []*world.Req{get("r2", b, "3")})
		}
		sc.After = []world.Step{gen.ReqStep(get("a0", b, "1")), gen.ReqStep(get("a1", a, "1")), gen.ReqStep(get("a2", b, "2"))}
		return sc
	}
	RunCheck(t, c)
}
