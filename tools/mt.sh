#!/bin/bash
# usage: mt.sh <seed-dir> <Test> [checks] [seed]   -- applies the seeded patch to /repo, runs one test, restores /repo
d=$1; shift
[ -z "$(git -C /repo status --short)" ] || { echo "/repo dirty"; exit 2; }
git -C /repo apply $d/patch.diff || exit 2
/verif/tools/t.sh "$@"
git -C /repo checkout -- . ; git -C /repo status --short
