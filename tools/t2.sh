#!/bin/bash
# like t.sh, but against the scratch worktree /tmp/wt/f (a copy of the harness is built with replace => /tmp/wt/f)
set -e
export GOFLAGS=-mod=mod GOPROXY=off
rsync -a --delete /verif/harness/ /tmp/h2/
sed -i 's#=> /repo#=> /tmp/wt/f#' /tmp/h2/go.mod
cd /tmp/h2 && go test -c -o /tmp/h2/props.test ./props
cd /tmp/h2/props
T=$1; N=${2:-3000}; S=${3:-1}; shift; shift || true; shift || true
mkdir -p /dev/shm/vo2
VERIF_OUT=/dev/shm/vo2 VERIF_KF=/verif/known_findings.json VERIF_SHARD=${VERIF_SHARD:-x} timeout 900 /tmp/h2/props.test -test.run "^$T\$" -rapid.checks=$N -rapid.seed=$S -rapid.nofailfile -rapid.shrinktime=10s -test.timeout 880s "$@" 2>&1 | grep -v "rapid\] draw" | grep -E "^\s+harness_test.go:2[0-9][0-9]|^ok|^fatal|FAIL|^panic|PASS|^\s+[a-z0-9_]+_test.go" | head -${LINES_MAX:-4} | cut -c1-1500
