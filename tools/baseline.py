#!/usr/bin/env python3
"""Run the repository's own suite (guard off: there are no hooks) and compare with /root/.vp/BASELINE.json."""
import json, subprocess, sys, os
repo = sys.argv[1] if len(sys.argv) > 1 else "/repo"
base = json.load(open("/root/.vp/BASELINE.json"))
env = dict(os.environ); env["GOFLAGS"] = "-mod=mod"; env["GOPROXY"] = "off"
p = subprocess.run(["go", "test", "-json", "-vet=off", "-count=1", "-timeout", "25m", "./..."], cwd=repo, env=env, stdout=subprocess.PIPE, stderr=subprocess.STDOUT, text=True)
res = {}
for line in p.stdout.splitlines():
    try: ev = json.loads(line)
    except Exception: continue
    if ev.get("Test") and ev.get("Action") in ("pass", "fail", "skip"):
        res[ev["Package"] + "::" + ev["Test"]] = ev["Action"]
bad = [t for t in base["stable_pass"] if res.get(t) != "pass"]
print("stable baseline tests: %d, passing now: %d" % (len(base["stable_pass"]), len(base["stable_pass"]) - len(bad)))
for t in bad: print("NOT PASSING:", t, res.get(t))
sys.exit(1 if bad else 0)
