#!/usr/bin/env python3
# daemon: 4 workers poll /tmp/q8/todo/<seed> (content = props list or empty, optional flags after a space), run seedtest in clone k
import json,os,subprocess,sys,threading,time
out='/tmp/seed/round8.jsonl'
lock=threading.Lock()
def take():
    with lock:
        for f in sorted(os.listdir('/tmp/q8/todo')):
            p='/tmp/q8/todo/'+f
            try:
                c=open(p).read().strip(); os.rename(p,'/tmp/q8/done/'+f+'.'+str(int(time.time())))
                return f,c
            except OSError: continue
    return None,None
def worker(k):
    base=f'/tmp/par/{k}'
    while not os.path.exists('/tmp/q8/stop'):
        s,c=take()
        if not s: time.sleep(3); continue
        name=s.split('@')[0]
        parts=c.split()
        props=parts[0] if parts and not parts[0].startswith('--') else name.split('-')[0]
        flags=[x for x in parts if x.startswith('--')]
        d=f'/tmp/seed/{name}' if os.path.exists(f'/tmp/seed/{name}/patch.diff') else f'/verif/seeded/{name}'
        try:
            p=subprocess.run(['python3',f'{base}/verif/tools/seedtest.py',d,'--props',props]+flags,capture_output=True,text=True,timeout=3600)
            line=(p.stdout.strip().split('\n') or [''])[-1]
        except Exception as e:
            line=json.dumps({'seed':name,'error':str(e)})
        with lock:
            open(out,'a').write(line+'\n')
            print(name,props,line[:300],flush=True)
ths=[threading.Thread(target=worker,args=(k,)) for k in range(1,5)]
for t in ths: t.start()
for t in ths: t.join()
