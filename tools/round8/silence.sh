#!/bin/bash
# usage: silence.sh <seed>
cd /verif
S=$1
for p in C01 C02 C03 C04 C05 C06 C07 C08 C09 C10 C11 C12 C13 C14 C15 C16 C17 C18 C19 C20; do
  t0=$(date +%s)
  out=$(VERIF_SEED=$S ./check $p quick 2>&1); rc=$?
  echo "$p seed=$S rc=$rc wall=$(( $(date +%s)-t0 ))s $(echo "$out" | grep -E 'VIOLATION|KNOWN-FINDING|INCONCLUSIVE|error' | head -3 | tr '\n' '|' | cut -c1-400)"
done
