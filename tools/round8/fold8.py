import json,os
R=json.load(open('/verif/seeded/RESULTS.json'))
first={}
for l in open('/tmp/seed/round8_first.jsonl'):
    try: j=json.loads(l)
    except Exception: continue
    first[j['seed']]=j
after={}
for f in ('/tmp/seed/round8.jsonl',):
    if not os.path.exists(f): continue
    for l in open(f):
        try: j=json.loads(l)
        except Exception: continue
        for k,v in j.get('checks',{}).items():
            after.setdefault(j['seed'],{})[k]={'exit':v['rc'],'kind':(v['kind'] or [''])[0][:160]}
# runs made directly in /verif against /repo with the patch applied
manual=json.load(open('/tmp/seed/manual8.json')) if os.path.exists('/tmp/seed/manual8.json') else {}
for s,v in manual.items():
    after.setdefault(s,{}).update(v)
def slim(j):
    return {'demo_clean_rc':j.get('demo_clean_rc'),'demo_mutant_rc':j.get('demo_mutant_rc'),'baseline_ok':j.get('baseline_ok'),'builds':j.get('builds'),
            'checks':{k:{'exit':v['rc'],'kind':(v['kind'] or [''])[0][:160]} for k,v in j.get('checks',{}).items()},
            'what':'tools/seedtest.py: demonstration on the clean and on the changed tree, the 343 baseline tests on the changed tree, quick check of the property as it stood before round 8 strengthening (in a parallel clone)'}
n=0
for s in sorted(set(list(first)+list(after))):
    e=R.setdefault(s,{})
    if s in first: e['round8']=slim(first[s])
    if s in after: e['round8_after']={'checks':after[s],'what':'quick check after the round 8 strengthening, patch applied (check only)'}
    mp=f'/verif/seeded/{s}/meta.json'
    if os.path.exists(mp):
        m=json.load(open(mp))
        if s in first: m['round8']=e['round8']
        if s in after: m['round8_after']=e['round8_after']
        json.dump(m,open(mp,'w'),indent=1)
    n+=1
json.dump(R,open('/verif/seeded/RESULTS.json','w'),indent=1,sort_keys=True)
rep=[s for s in first if any(v['exit']==1 for v in (R[s].get('round8',{}).get('checks',{})|R[s].get('round8_after',{}).get('checks',{})).values())]
print(n,'entries;',len(first),'round-8 seeds; reported:',len(rep)); print('not reported:',sorted(set(first)-set(rep)))
