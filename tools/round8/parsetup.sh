#!/bin/bash
# usage: parsetup.sh <n>  -- n parallel clones of /repo (worktrees) and /verif (copies)
N=$1
for k in $(seq 1 $N); do
  d=/tmp/par/$k
  [ -d $d/repo ] && git -C /repo worktree remove --force $d/repo 2>/dev/null
  rm -rf $d; mkdir -p $d
  git -C /repo worktree add -q --detach $d/repo HEAD
  rsync -a --exclude .git --exclude .build --exclude replays --exclude evidence /verif/ $d/verif/
  mkdir -p $d/verif/evidence $d/verif/replays
  sed -i "s#=> /repo#=> $d/repo#" $d/verif/harness/go.mod
  sed -i "s#^REPO = \"/repo\"#REPO = \"$d/repo\"#; s#^VERIF = \"/verif\"#VERIF = \"$d/verif\"#; s#=> /repo\"#=> $d/repo\"#" $d/verif/tools/seedtest.py
done
git -C /repo worktree list | wc -l
