#!/usr/bin/env python3
"""Evaluate one seeded change against the checks.

usage: seedtest.py <seed-dir> [--props C01,C02] [--tier quick] [--seeds 1] [--no-demo] [--no-baseline]

<seed-dir> holds patch.diff, meta.json and the demonstration (demo_test.go or a program directory).
The patch is applied to /repo's working tree (git apply), everything is run, and the tree is
restored (git checkout -- . ; untracked demo files removed) in every case.
Prints one JSON line with the outcome.
"""
import json, os, subprocess, sys, shutil, time

REPO = "/repo"
VERIF = "/verif"


def sh(cmd, cwd=None, timeout=1800, env=None):
    e = dict(os.environ)
    e["GOFLAGS"] = "-mod=mod"
    e["GOPROXY"] = "off"
    if env:
        e.update(env)
    p = subprocess.run(cmd, cwd=cwd, shell=isinstance(cmd, str), stdout=subprocess.PIPE, stderr=subprocess.STDOUT, text=True, timeout=timeout, env=e)
    return p.returncode, p.stdout


def clean_repo(extra):
    sh("git checkout -- .", cwd=REPO)
    for f in extra:
        try:
            os.remove(f)
        except OSError:
            pass
    rc, out = sh("git status --short", cwd=REPO)
    if out.strip():
        print("WARNING: /repo not clean:", out, file=sys.stderr)


def run_demo(d, meta):
    """returns (rc, output) of the demonstration against /repo as it is now"""
    demo = os.path.join(d, "demo_test.go")
    extra = []
    if os.path.exists(demo):
        pkg = (meta.get("demo_package_dir") or ".").strip()
        pkg = pkg.replace("/tmp/wt/" + meta.get("property", "") + "/", "").strip("/")
        if pkg.startswith("/"):
            pkg = "."
        dst_dir = os.path.join(REPO, pkg) if pkg not in ("", ".", "repo root", "root") else REPO
        if not os.path.isdir(dst_dir):
            dst_dir = REPO
        dst = os.path.join(dst_dir, "zz_seed_demo_test.go")
        shutil.copy(demo, dst)
        extra.append(dst)
        # run only the tests defined in the demo file
        names = []
        for line in open(demo):
            if line.startswith("func Test"):
                names.append(line.split("(")[0].replace("func ", "").strip())
        pat = "^(" + "|".join(names) + ")$" if names else "."
        rc, out = sh(["go", "test", "-vet=off", "-count=1", "-run", pat, "."], cwd=dst_dir, timeout=600)
        return rc, out, extra
    # program directory
    for sub in sorted(os.listdir(d)):
        p = os.path.join(d, sub)
        if os.path.isdir(p) and os.path.exists(os.path.join(p, "go.mod")):
            tmp = "/tmp/seed-demo-run"
            shutil.rmtree(tmp, ignore_errors=True)
            shutil.copytree(p, tmp)
            gm = open(os.path.join(tmp, "go.mod")).read()
            import re
            gm = re.sub(r"replace github.com/bartventer/httpcache => \S+", "replace github.com/bartventer/httpcache => /repo", gm)
            open(os.path.join(tmp, "go.mod"), "w").write(gm)
            has_test = any(f.endswith("_test.go") for f in os.listdir(tmp))
            rc, out = sh(["go", "test", "-count=1", "./..."] if has_test else ["go", "run", "."], cwd=tmp, timeout=600)
            shutil.rmtree(tmp, ignore_errors=True)
            return rc, out, extra
    return None, "no demonstration found", extra


def main():
    d = os.path.abspath(sys.argv[1])
    args = sys.argv[2:]
    opt = {"--tier": "quick", "--seeds": "1", "--props": None}
    flags = set()
    i = 0
    while i < len(args):
        if args[i] in opt:
            opt[args[i]] = args[i + 1]
            i += 2
        else:
            flags.add(args[i])
            i += 1
    meta = json.load(open(os.path.join(d, "meta.json")))
    prop = meta.get("property") or meta.get("breaks")
    props = (opt["--props"] or prop).split(",")
    res = {"seed": os.path.basename(d), "property": prop}
    rc, out = sh("git status --short", cwd=REPO)
    if out.strip():
        print("refusing: /repo is dirty", out)
        return 2
    extra = []
    try:
        # demo on the unchanged tree must pass
        if "--no-demo" not in flags:
            rc, out, extra = run_demo(d, meta)
            res["demo_clean_rc"] = rc
            clean_repo(extra)
            extra = []
        rc, out = sh(["git", "apply", os.path.join(d, "patch.diff")], cwd=REPO)
        if rc != 0:
            res["apply"] = "FAILED: " + out[-300:]
            print(json.dumps(res))
            return 1
        rc, out = sh("go build ./...", cwd=REPO)
        res["builds"] = rc == 0
        if "--no-baseline" not in flags:
            rc, out = sh(["python3", os.path.join(VERIF, "tools/baseline.py"), REPO])
            res["baseline_ok"] = rc == 0
            if rc != 0:
                res["baseline_out"] = out[-400:]
        if "--no-demo" not in flags:
            rc, out, extra = run_demo(d, meta)
            res["demo_mutant_rc"] = rc
            res["demo_tail"] = out[-300:] if rc not in (0, None) else ""
            for f in extra:
                try:
                    os.remove(f)
                except OSError:
                    pass
            extra = []
        res["checks"] = {}
        for p in props:
            for s in opt["--seeds"].split(","):
                t0 = time.time()
                rc, out = sh([os.path.join(VERIF, "check"), p, opt["--tier"]], cwd=VERIF, env={"VERIF_SEED": s}, timeout=7200)
                viol = [l for l in out.splitlines() if l.startswith("VIOLATION")]
                kinds = [l for l in out.splitlines() if l.startswith("violation:")]
                res["checks"]["%s/s%s" % (p, s)] = {"rc": rc, "violation": viol[:1], "kind": [k[:200] for k in kinds[:1]], "wall": round(time.time() - t0, 1)}
    finally:
        clean_repo(extra)
    print(json.dumps(res))
    return 0


if __name__ == "__main__":
    sys.exit(main())
