#!/usr/bin/env python3
"""Generate MANIFEST.json from checks.json and properties.jsonl."""
import json, os
root = os.path.dirname(os.path.dirname(os.path.abspath(__file__)))
conf = json.load(open(os.path.join(root, "checks.json")))
props = [json.loads(l) for l in open(os.path.join(root, "properties.jsonl"))]
na_reasons = json.load(open(os.path.join(root, "not_applicable.json"))) if os.path.exists(os.path.join(root, "not_applicable.json")) else {}
checks, na = [], []
for p in props:
    pid = p["id"]
    if pid in conf:
        c = conf[pid]
        entry = {
            "property_id": pid,
            "quick_cmd": "./check %s quick" % pid,
            "evidence_file": "/verif/evidence/%s.json" % pid,
            "replay_cmd_template": "./check %s --replay {path}" % pid,
            "engine": "harness",
            "level_claimed": {"category": c["level"], "text": c["level_text"], "design_ref": c.get("design_ref", "DESIGN.md")},
            "level_note": c.get("level_note", "Trusted: Go 1.25 runtime + testing/synctest virtual time, net/http types, rapid's generators/shrinker, the scripted origin's contract (honours cancellation, sticky body errors, 304 only to conditional requests) and the three-valued reference model in /verif/harness/model (false-alarm risk mitigated by UNSPECIFIED verdicts; miss risk by the seeded-change suite)."),
            "technique": c["technique"],
        }
        if "thorough" in c:
            entry["thorough_cmd"] = "./check %s thorough" % pid
        checks.append(entry)
    else:
        na.append({"property_id": pid, "reason": na_reasons.get(pid, "check not built yet (work in progress; the technique applies)")})
m = {
    "version": 1,
    "setup_cmd": "./check --build",
    "hooks": {"guard": "verif", "enable": "no hooks: every check drives the public API only (go test in /verif/harness with 'replace github.com/bartventer/httpcache => /repo')",
              "baseline_off_cmd": "python3 /verif/tools/baseline.py", "source_commits": [], "add_only": True},
    "engines": [{"name": "harness", "path": "/verif/harness", "serves_properties": [c["property_id"] for c in checks],
                 "kind_free_text": "Go module: rapid property tests, bounded enumeration and native fuzz targets that run the real transport/backends in a testing/synctest bubble against scripted origins and recording/faulting store drivers"}],
    "checks": checks,
    "not_applicable": na,
    "notes": "Approach, oracles, judgement calls and the fix/known-finding ledger: DESIGN.md. Driver: ./check; per-check configuration: checks.json.",
}
json.dump(m, open(os.path.join(root, "MANIFEST.json"), "w"), indent=1)
print("checks:", len(checks), "not_applicable:", len(na))
