#!/bin/bash
# usage: t.sh <TestName> <checks> <seed> [extra args]  -- rebuilds the test binary first
set -e
export GOFLAGS=-mod=mod GOPROXY=off
cd /verif/harness && go test -c -o /verif/.build/props.test ./props
cd /verif/harness/props
T=$1; N=${2:-3000}; S=${3:-1}; shift; shift || true; shift || true
VERIF_OUT=/dev/shm/vo VERIF_KF=${VERIF_KF:-/verif/known_findings.json} VERIF_SHARD=x timeout 600 /verif/.build/props.test -test.run "^$T\$" -rapid.checks=$N -rapid.seed=$S -rapid.nofailfile -rapid.shrinktime=10s -test.timeout 580s "$@" 2>&1 | grep -v "rapid\] draw" | grep -E "^\s+harness_test.go:2[0-9][0-9]|^ok|^fatal|FAIL|^panic|PASS|^\s+[a-z0-9_]+_test.go" | head -${LINES_MAX:-4} | cut -c1-1800
