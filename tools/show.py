import json,sys
s=json.load(open(sys.argv[1]))
print('backend',s.get('backend'),'swr',s.get('swr_set'),s.get('swr_ns'),'faults',s.get('faults'))
def rp(r):
    if not r: return None
    return (r['kind'],r.get('status'),r.get('header'),'lat',r.get('latency_ns',0)/1e9, r.get('body'))
for st in s['steps']:
    if st['op']=='sleep': print('  sleep',st.get('dur_ns',0)/1e9)
    elif st['op']=='req':
        r=st['req']; print(' ',r['method'],r['url'],r.get('header'),'cancel',r.get('cancel_ns'))
        print('      U',rp(r['uncond'])); 
        if r.get('cond'): print('      C',rp(r.get('cond')))
        if r.get('bg'): print('      B',rp(r.get('bg')))
    else: print(' ',st)
