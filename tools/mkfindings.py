#!/usr/bin/env python3
"""Regenerate known_findings.json: active findings (findings_active.json) + 'fixed:' ledger entries whose
commit hashes are resolved from /repo's history by commit subject (fix_ledger.json)."""
import json, subprocess, os
root = os.path.dirname(os.path.dirname(os.path.abspath(__file__)))
ledger = json.load(open(os.path.join(root, "fix_ledger.json")))
active = json.load(open(os.path.join(root, "findings_active.json")))
log = subprocess.run(["git", "-C", "/repo", "log", "--format=%h\t%s"], capture_output=True, text=True).stdout.splitlines()
out = list(active)
for e in ledger:
    h = [l.split("\t")[0] for l in log if l.split("\t", 1)[1].startswith(e["subject"])]
    if not h:
        raise SystemExit("no commit for " + e["subject"])
    for prop, what in e["breaks"]:
        out.append({"fixed": "property=%s %s %s" % (prop, h[0], what), "commit_subject": e["subject"]})
json.dump(out, open(os.path.join(root, "known_findings.json"), "w"), indent=1)
print(len(active), "active,", len(out) - len(active), "fixed entries")
