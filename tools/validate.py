#!/opt/veriftools/pyvenv/bin/python
import json, jsonschema, glob, sys
ok = True
try:
    jsonschema.validate(json.load(open('/verif/MANIFEST.json')), json.load(open('/root/.vp/MANIFEST.schema.json'))); print('manifest valid')
except Exception as e:
    ok = False; print('MANIFEST INVALID', e)
sch = json.load(open('/root/.vp/EVIDENCE.schema.json'))
for f in sorted(glob.glob('/verif/evidence/*.json')):
    try:
        jsonschema.validate(json.load(open(f)), sch)
    except Exception as e:
        ok = False; print('EVIDENCE INVALID', f, str(e)[:300])
print('evidence files checked:', len(glob.glob('/verif/evidence/*.json')))
sys.exit(0 if ok else 1)
